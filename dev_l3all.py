import sys; sys.path.insert(0,'/verif')
from vp.units.l3run import run_concern
pid=sys.argv[1]
r=run_concern(pid, sys.argv[2] if len(sys.argv)>2 else 'quick', 0)
print('obligations', len(r['obligations']), 'failures', len(r['failures']))
for f in r['failures']: print('FAIL', f.unit, f.obligation, '|', f.message[:140], '|', f.exit_text()[:160])
print(r['coverage']['l3_skipped']); print(getattr(r.get('inconclusive'),'reason',''))
print(r['coverage']['programs'], r['coverage']['l3_wall_s'])
