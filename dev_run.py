import sys
sys.path.insert(0,'/verif')
from vp.core import *
import importlib
name = sys.argv[1]
probe = '--probe' in sys.argv
mod = importlib.import_module('vp.units.'+name.lower())
U = getattr(mod, 'Unit'+name)
ur = run_unit(U(), probe=probe)
print(ur.status, '|', ur.reason, '|', ur.file)
if ur.vr: print('verified', ur.vr.verified, 'errors', ur.vr.errors, 'wall', round(ur.vr.wall_s,2), 'smt ms', ur.vr.smt_ms())
for d in (ur.vr.other_errors() if ur.vr else [])[:8]: print(d.rendered)
for f in ur.failures: print('FAIL', f.obligation, '|', f.message, '|', f.exit_text(), '|', [ (e['file'],e['line']) for e in f.exits])
print('obligations', len(ur.obligations)); print('probe', ur.probe)
