#!/bin/sh
# offline setup: nothing is built ahead of time; just verify the tools the checks need are present
set -e
command -v verus >/dev/null
command -v python3 >/dev/null
command -v cargo >/dev/null
command -v rsync >/dev/null
cargo kani --version >/dev/null 2>&1 || echo "warning: cargo kani not found (thorough tier of C06/C19 needs it)"
(cd /repo && CARGO_NET_OFFLINE=true cargo metadata --offline --format-version 1 >/dev/null)
mkdir -p /verif/evidence /verif/replays
echo setup ok
