// C16 / C07(b): the HTTP exchange of helpers::send_soap_request_using_client.
//# section: helpers-spec
    // Basic credentials exactly when configured: user and password are the Display texts of the pair
    pub open spec fn wanted_auth_of<U, P>(credentials: Option<(U, P)>) -> Option<(Seq<char>, Option<Seq<char>>)> {
        match credentials {
            Some((u, p)) => Some((display(u), Some(display(p)))),
            None => None,
        }
    }
    // a successful exchange: the request was valid and serializable, the transport worked, the status is
    // not 4xx/5xx, the body could be read and it parses as the response envelope
    pub open spec fn good_exchange<YI, YO>(req: YI) -> bool
        where YI: YaSerialize + CheckRestrictions, YO: YaDeserialize
    {
        &&& req.sat(None)
        &&& ser_string::<YI>(req) is Ok
        &&& transport_ok()
        &&& !(400 <= the_response().status < 600)
        &&& body_read_ok()
        &&& de_string::<YO>(the_response().body) is Ok
    }
