// C10: the namespace table.  Written from the property statement: within one output two different
// namespace URIs never share a prefix or module, one URI never gets two, and every prefix in use is
// declared with that URI.
//# section: namespace-table-spec
    // URI <-> prefix is a bijection over the table (duplicates of one entry are harmless)
    pub open spec fn ns_injective(v: Seq<Rc<Namespace>>) -> bool {
        forall|i: int, j: int| 0 <= i < v.len() && 0 <= j < v.len() ==>
            (((#[trigger] v[i]).namespace@ == (#[trigger] v[j]).namespace@) <==> (v[i].abbreviation@ == v[j].abbreviation@))
    }
    // module <-> prefix is a fixed injective function
    pub open spec fn mod_names_ok(v: Seq<Rc<Namespace>>) -> bool {
        forall|i: int| 0 <= i < v.len() ==> (#[trigger] v[i]).rust_mod_name@ == "mod_"@ + v[i].abbreviation@
    }
    pub open spec fn listed(v: Seq<Rc<Namespace>>, n: Rc<Namespace>) -> bool {
        exists|i: int| 0 <= i < v.len() && ns_same(*(#[trigger] v[i]), *n)
    }
    // representation invariant of the table inside a RustDocument
    pub closed spec fn wf(d: RustDocument) -> bool {
        &&& ns_injective(d.namespaces@)
        &&& mod_names_ok(d.namespaces@)
        &&& forall|i: int| 0 <= i < d.target_namespaces@.len() ==> listed(d.namespaces@, #[trigger] d.target_namespaces@[i])
        &&& forall|k: String| d.namespace_lookup@.contains_key(k) ==> listed(d.namespaces@, #[trigger] d.namespace_lookup@[k])
        &&& (d.current_target_namespace is Some ==> listed(d.target_namespaces@, d.current_target_namespace->0))
    }
    // views of the crate-private fields (public functions may only mention these in their contracts)
    pub closed spec fn lookup_of(d: RustDocument) -> Map<String, Rc<Namespace>> { d.namespace_lookup@ }
    pub closed spec fn current_of(d: RustDocument) -> Option<Rc<Namespace>> { d.current_target_namespace }
