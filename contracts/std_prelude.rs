// Assumed contracts on the Rust standard library (trusted base).  Everything in this file is an
// ASSUMPTION: a statement of documented std behaviour that this vstd does not already specify.
// Units select sections by name; each selected item is listed in the evidence `trusted_base`.
// Layout rule (found by trial): broadcast axioms live in `mod ax`, assumed specs in `mod stdspec`;
// verified code lives elsewhere and does `broadcast use`.

//# section: ax-begin
pub mod ax {
    use vstd::prelude::*;
    use std::rc::Rc;
    use vstd::std_specs::fmt::DisplaySpec;
//# section: ax-rc
    // TRUSTED: cloning an Rc yields a pointer to the same (hence equal) value.
    pub broadcast axiom fn rc_clone_eq<T>(a: Rc<T>, b: Rc<T>)
        requires #[trigger] cloned::<Rc<T>>(a, b)
        ensures a == b;
//# section: ax-parse
    // TRUSTED: Display for ParseIntError never fails / has no precondition.
    pub broadcast axiom fn parse_int_error_display(e: core::num::ParseIntError, f: core::fmt::Formatter<'_>)
        ensures #[trigger] DisplaySpec::fmt_req(&e, &f);
    // TRUSTED: <iN as FromStr>::from_str accepts exactly [+-]?[0-9]+ whose value fits in iN
    // (std docs of `from_str` for the primitive integers), and yields that value.
    pub broadcast axiom fn parse_i32(s: Seq<char>)
        ensures (#[trigger] super::stdspec::parse_spec::<i32>(s)) is Some
                    <==> (super::stdspec::is_numeral(s) && i32::MIN <= super::stdspec::int_of(s) <= i32::MAX),
                super::stdspec::parse_spec::<i32>(s) is Some
                    ==> super::stdspec::parse_spec::<i32>(s)->0 as int == super::stdspec::int_of(s);
    pub broadcast axiom fn parse_i64(s: Seq<char>)
        ensures (#[trigger] super::stdspec::parse_spec::<i64>(s)) is Some
                    <==> (super::stdspec::is_numeral(s) && i64::MIN <= super::stdspec::int_of(s) <= i64::MAX),
                super::stdspec::parse_spec::<i64>(s) is Some
                    ==> super::stdspec::parse_spec::<i64>(s)->0 as int == super::stdspec::int_of(s);
    pub broadcast axiom fn parse_i128(s: Seq<char>)
        ensures (#[trigger] super::stdspec::parse_spec::<i128>(s)) is Some
                    <==> (super::stdspec::is_numeral(s) && i128::MIN <= super::stdspec::int_of(s) <= i128::MAX),
                super::stdspec::parse_spec::<i128>(s) is Some
                    ==> super::stdspec::parse_spec::<i128>(s)->0 as int == super::stdspec::int_of(s);
//# section: ax-tryfrom
    // TRUSTED: i32::try_from(x) for the integer carrier types: lossless (infallible) for the types
    // that fit, and `Ok(x)` exactly when x is within i32 for the wider ones (std docs of TryFrom).
    // vstd's contract of try_from is `obeys_try_from_spec() ==> ret == try_from_spec(x)`.
    pub broadcast axiom fn try_from_i32_obeys()
        ensures
            <i32 as vstd::std_specs::convert::TryFromSpec<i8>>::obeys_try_from_spec(),
            <i32 as vstd::std_specs::convert::TryFromSpec<u8>>::obeys_try_from_spec(),
            <i32 as vstd::std_specs::convert::TryFromSpec<i16>>::obeys_try_from_spec(),
            <i32 as vstd::std_specs::convert::TryFromSpec<u16>>::obeys_try_from_spec(),
            <i32 as vstd::std_specs::convert::TryFromSpec<u32>>::obeys_try_from_spec(),
            <i32 as vstd::std_specs::convert::TryFromSpec<i64>>::obeys_try_from_spec(),
            <i32 as vstd::std_specs::convert::TryFromSpec<u64>>::obeys_try_from_spec();
    pub broadcast axiom fn try_from_i32_i8(x: i8)
        ensures #[trigger] <i32 as vstd::std_specs::convert::TryFromSpec<i8>>::try_from_spec(x)
                    == Ok::<i32, core::convert::Infallible>(x as i32);
    pub broadcast axiom fn try_from_i32_u8(x: u8)
        ensures #[trigger] <i32 as vstd::std_specs::convert::TryFromSpec<u8>>::try_from_spec(x)
                    == Ok::<i32, core::convert::Infallible>(x as i32);
    pub broadcast axiom fn try_from_i32_i16(x: i16)
        ensures #[trigger] <i32 as vstd::std_specs::convert::TryFromSpec<i16>>::try_from_spec(x)
                    == Ok::<i32, core::convert::Infallible>(x as i32);
    pub broadcast axiom fn try_from_i32_u16(x: u16)
        ensures #[trigger] <i32 as vstd::std_specs::convert::TryFromSpec<u16>>::try_from_spec(x)
                    == Ok::<i32, core::convert::Infallible>(x as i32);
    pub broadcast axiom fn try_from_i32_u32(x: u32)
        ensures (#[trigger] <i32 as vstd::std_specs::convert::TryFromSpec<u32>>::try_from_spec(x)) is Ok <==> x <= i32::MAX,
                <i32 as vstd::std_specs::convert::TryFromSpec<u32>>::try_from_spec(x) is Ok
                    ==> <i32 as vstd::std_specs::convert::TryFromSpec<u32>>::try_from_spec(x)->Ok_0 == x as int;
    pub broadcast axiom fn try_from_i32_i64(x: i64)
        ensures (#[trigger] <i32 as vstd::std_specs::convert::TryFromSpec<i64>>::try_from_spec(x)) is Ok <==> i32::MIN <= x <= i32::MAX,
                <i32 as vstd::std_specs::convert::TryFromSpec<i64>>::try_from_spec(x) is Ok
                    ==> <i32 as vstd::std_specs::convert::TryFromSpec<i64>>::try_from_spec(x)->Ok_0 == x as int;
    pub broadcast axiom fn try_from_i32_u64(x: u64)
        ensures (#[trigger] <i32 as vstd::std_specs::convert::TryFromSpec<u64>>::try_from_spec(x)) is Ok <==> x <= i32::MAX,
                <i32 as vstd::std_specs::convert::TryFromSpec<u64>>::try_from_spec(x) is Ok
                    ==> <i32 as vstd::std_specs::convert::TryFromSpec<u64>>::try_from_spec(x)->Ok_0 == x as int;
//# section: ax-from-unsigned
    // TRUSTED: i128::from(x) for unsigned x is the lossless widening `x as i128` (std docs of From;
    // this vstd specifies the same-signedness pairs only).  vstd's contract of `from` is
    // `obeys_from_spec() ==> ret == from_spec(x)`.
    pub broadcast axiom fn from_i128_obeys()
        ensures
            <i128 as vstd::std_specs::convert::FromSpec<u8>>::obeys_from_spec(),
            <i128 as vstd::std_specs::convert::FromSpec<u16>>::obeys_from_spec(),
            <i128 as vstd::std_specs::convert::FromSpec<u32>>::obeys_from_spec(),
            <i128 as vstd::std_specs::convert::FromSpec<u64>>::obeys_from_spec();
    pub broadcast axiom fn from_i128_u8(x: u8)
        ensures #[trigger] <i128 as vstd::std_specs::convert::FromSpec<u8>>::from_spec(x) == x as i128;
    pub broadcast axiom fn from_i128_u16(x: u16)
        ensures #[trigger] <i128 as vstd::std_specs::convert::FromSpec<u16>>::from_spec(x) == x as i128;
    pub broadcast axiom fn from_i128_u32(x: u32)
        ensures #[trigger] <i128 as vstd::std_specs::convert::FromSpec<u32>>::from_spec(x) == x as i128;
    pub broadcast axiom fn from_i128_u64(x: u64)
        ensures #[trigger] <i128 as vstd::std_specs::convert::FromSpec<u64>>::from_spec(x) == x as i128;
//# section: ax-string-eq
    // TRUSTED: String's PartialEq compares the character sequences.
    pub broadcast axiom fn string_peq(a: String, b: String)
        ensures #[trigger] super::stdspec::peq::<String>(a, b) <==> a@ == b@;
//# section: ax-display-ref
    // TRUSTED: `impl<T: Display> Display for &T` forwards to T (std), so a reference can be formatted
    // whenever the value can.
    pub broadcast axiom fn display_ref<T: core::fmt::Display>(x: &T, f: &core::fmt::Formatter<'_>)
        requires DisplaySpec::fmt_req(x, f)
        ensures #[trigger] DisplaySpec::fmt_req(&x, f);
//# section: ax-str-ext
    // TRUSTED: two `&str` with the same character sequence are equal values (needed to reason about
    // `match s { "lit" => .. }`, which compares by content).
    pub broadcast axiom fn str_ext(a: &str, b: &str)
        requires #[trigger] a@ == #[trigger] b@
        ensures a == b;
//# section: ax-hash-string
    // TRUSTED: String's Hash/Eq are consistent (std), so HashMap<String, _> behaves as a map.
    pub broadcast axiom fn string_key_model()
        ensures #[trigger] vstd::std_specs::hash::obeys_key_model::<String>();
    // TRUSTED: a String is determined by its character sequence (`string_of` is the inverse of the view), and
    // looking a `&str` up in a HashMap<String, _> finds the entry whose key has that text (Borrow<str> for String).
    pub uninterp spec fn string_of(v: Seq<char>) -> String;
    pub broadcast axiom fn string_of_view(s: String)
        ensures string_of(#[trigger] s@) == s;
    pub broadcast axiom fn view_string_of(v: Seq<char>)
        ensures (#[trigger] string_of(v))@ == v;
    pub broadcast axiom fn borrowed_string_key<V>(m: Map<String, V>, k: &str)
        ensures #[trigger] vstd::std_specs::hash::contains_borrowed_key(m, k) == m.contains_key(string_of(k@));
    pub broadcast axiom fn borrowed_string_value<V>(m: Map<String, V>, k: &str, v: V)
        ensures #[trigger] vstd::std_specs::hash::maps_borrowed_key_to_value(m, k, v) == (m.contains_key(string_of(k@)) && m[string_of(k@)] == v);
    // TRUSTED: &str compares by content
    pub broadcast axiom fn str_peq(a: &str, b: &str)
        ensures #[trigger] super::stdspec::peq::<&str>(a, b) <==> a@ == b@;
//# section: ax-extend
    pub broadcast axiom fn into_seq_vec<T>(v: Vec<T>) ensures #[trigger] super::stdspec::into_seq::<Vec<T>, T>(v) == v@;
    pub broadcast axiom fn into_map_hashmap<K, V>(m: std::collections::HashMap<K, V>) ensures #[trigger] super::stdspec::into_map::<std::collections::HashMap<K, V>, K, V>(m) == m@;
//# section: ax-slice-iter
    pub broadcast axiom fn iter_seq_is_remaining<'a, T>(it: core::slice::Iter<'a, T>)
        ensures #[trigger] super::stdspec::iter_seq(it) == vstd::std_specs::iter::IteratorSpec::remaining(&it);
//# section: ax-bytelen
    // TRUSTED: every char takes at least one byte in UTF-8.
    pub broadcast axiom fn byte_len_at_least_chars(v: Seq<char>)
        ensures v.len() <= #[trigger] super::stdspec::byte_len(v);
//# section: ax-split-once
    // TRUSTED: splitting at a char: None iff the char does not occur; otherwise the text before the FIRST occurrence and the text after it (std docs).
    pub broadcast axiom fn split_once_char(s: Seq<char>, c: char)
        ensures
            (#[trigger] super::stdspec::split_once_spec::<char>(s, c)) is None <==> !s.contains(c),
            super::stdspec::split_once_spec::<char>(s, c) is Some ==> {
                let a = (super::stdspec::split_once_spec::<char>(s, c)->0).0;
                let b = (super::stdspec::split_once_spec::<char>(s, c)->0).1;
                s == a + seq![c] + b && !a.contains(c)
            };
//# section: ax-rsplit-once
    // TRUSTED: rsplit_once(char) splits at the LAST occurrence.
    pub broadcast axiom fn rsplit_once_char(s: Seq<char>, c: char)
        ensures
            (#[trigger] super::stdspec::rsplit_once_spec::<char>(s, c)) is None <==> !s.contains(c),
            super::stdspec::rsplit_once_spec::<char>(s, c) is Some ==> {
                let a = (super::stdspec::rsplit_once_spec::<char>(s, c)->0).0;
                let b = (super::stdspec::rsplit_once_spec::<char>(s, c)->0).1;
                s == a + seq![c] + b && !b.contains(c)
            };
//# section: ax-as-deref-rc
    // TRUSTED: Option<Rc<T>>::as_deref borrows the shared value (Rc's Deref)
    pub broadcast axiom fn as_deref_rc<T>(o: &Option<Rc<T>>)
        ensures #[trigger] super::stdspec::as_deref_spec::<Rc<T>>(o) == (match *o { Some(rc) => Some(&*rc), None => None });
//# section: ax-trim
    // TRUSTED: trimming is idempotent (std: str::trim removes leading and trailing white space)
    pub broadcast axiom fn trim_idempotent(s: Seq<char>)
        ensures #[trigger] super::stdspec::trim_spec(super::stdspec::trim_spec(s)) == super::stdspec::trim_spec(s);
//# section: ax-end
}
//# section: stdspec-begin
pub mod stdspec {
    use vstd::prelude::*;
    use vstd::std_specs::iter::IteratorSpec;
//# section: stdspec-parse
    // `is_numeral(s)`: s is an optional sign followed by one or more ASCII digits (XSD integer
    // lexical form == Rust integer FromStr grammar); `int_of(s)`: the integer it denotes.
    pub uninterp spec fn is_numeral(s: Seq<char>) -> bool;
    pub uninterp spec fn int_of(s: Seq<char>) -> int;

    #[verifier::external_type_specification]
    #[verifier::external_body]
    pub struct ExParseIntError(core::num::ParseIntError);

    #[verifier::external_trait_specification]
    pub trait ExFromStr: Sized {
        type ExternalTraitSpecificationFor: core::str::FromStr;
        type Err;
    }
    pub uninterp spec fn parse_spec<F>(s: Seq<char>) -> Option<F>;
    // TRUSTED: str::parse::<F> is a function of the character sequence.
    pub assume_specification<F: core::str::FromStr> [str::parse::<F>] (s: &str) -> (r: Result<F, F::Err>)
        ensures r is Ok <==> parse_spec::<F>(s@) is Some,
                r is Ok ==> Some(r->Ok_0) == parse_spec::<F>(s@);
//# section: stdspec-chars
    // TRUSTED: Iterator::count on str::Chars returns the number of chars not yet yielded
    // (`remaining()` is vstd's model of the iterator; vstd's own contract of `str::chars` is
    // `remaining() == s@`).
    pub assume_specification<'a> [<core::str::Chars<'a> as Iterator>::count] (it: core::str::Chars<'a>) -> (n: usize)
        ensures n as int == it.remaining().len();
//# section: stdspec-bytelen
    // `byte_len(v)`: number of UTF-8 bytes of the text v (at least its number of chars).
    pub uninterp spec fn byte_len(v: Seq<char>) -> nat;
    // TRUSTED: String::len is the UTF-8 byte length (std docs).
    pub assume_specification [String::len] (s: &String) -> (n: usize)
        ensures n as nat == byte_len(s@);
//# section: stdspec-as-bytes
    // TRUSTED: String::as_bytes is the UTF-8 encoding (only its length is specified here).
    pub assume_specification [String::as_bytes] (s: &String) -> (b: &[u8])
        ensures b@.len() == byte_len(s@);
//# section: stdspec-contains
    // `peq(a, b)`: the result of `a == b` through the type's PartialEq impl.
    pub uninterp spec fn peq<T>(a: T, b: T) -> bool;
    // TRUSTED: <[T]>::contains(x) is `exists i. self[i] == *x` (std docs).
    pub assume_specification<T: PartialEq> [<[T]>::contains] (s: &[T], x: &T) -> (b: bool)
        ensures b <==> exists|i: int| 0 <= i < s@.len() && peq::<T>(#[trigger] s@[i], *x);
//# section: stdspec-as-deref
    // TRUSTED: Option::as_deref keeps presence (std docs: `Option<T>` -> `Option<&T::Target>`).
    pub assume_specification<T: core::ops::Deref> [Option::<T>::as_deref] (o: &Option<T>) -> (r: Option<&<T as core::ops::Deref>::Target>)
        ensures r is Some <==> o is Some, r == as_deref_spec::<T>(o);
    // `as_deref_spec(o)`: the value of `o.as_deref()` (a function of `o`)
    pub uninterp spec fn as_deref_spec<'a, T: core::ops::Deref>(o: &'a Option<T>) -> Option<&'a <T as core::ops::Deref>::Target>;
//# section: stdspec-slice-iter
    // `iter_seq(it)`: the references a slice iterator has still to yield (bridged to vstd's `remaining()` by
    // axiom iter_seq_is_remaining; an uninterpreted name avoids a definitional cycle in Verus).
    #[verifier::prophetic]
    pub uninterp spec fn iter_seq<'a, T>(it: core::slice::Iter<'a, T>) -> Seq<&'a T>;
    // TRUSTED: Iterator::any / Iterator::find on a slice iterator (std docs), stated through the closure's own postcondition.
    pub assume_specification<'a, T, F: FnMut(&'a T) -> bool> [<core::slice::Iter<'a, T> as Iterator>::any::<F>] (it: &mut core::slice::Iter<'a, T>, f: F) -> (b: bool)
        where core::slice::Iter<'a, T>: Sized
        ensures
            b ==> exists|i: int| 0 <= i < iter_seq(*old(it)).unref().len() && f.ensures((&#[trigger] iter_seq(*old(it)).unref()[i],), true),
            !b ==> forall|i: int| 0 <= i < iter_seq(*old(it)).unref().len() ==> f.ensures((&#[trigger] iter_seq(*old(it)).unref()[i],), false);
    pub assume_specification<'a, T, F: FnMut(&'a T) -> bool> [<core::slice::Iter<'a, T> as Iterator>::all::<F>] (it: &mut core::slice::Iter<'a, T>, f: F) -> (b: bool)
        where core::slice::Iter<'a, T>: Sized
        ensures
            b ==> forall|i: int| 0 <= i < iter_seq(*old(it)).unref().len() ==> f.ensures((&#[trigger] iter_seq(*old(it)).unref()[i],), true),
            !b ==> exists|i: int| 0 <= i < iter_seq(*old(it)).unref().len() && f.ensures((&#[trigger] iter_seq(*old(it)).unref()[i],), false);
    pub assume_specification<'a, T, P: FnMut(&&'a T) -> bool> [<core::slice::Iter<'a, T> as Iterator>::find::<P>] (it: &mut core::slice::Iter<'a, T>, f: P) -> (r: Option<<core::slice::Iter<'a, T> as Iterator>::Item>)
        where core::slice::Iter<'a, T>: Sized
        ensures
            r is Some ==> exists|i: int| 0 <= i < iter_seq(*old(it)).unref().len() && *r->0 == #[trigger] iter_seq(*old(it)).unref()[i] && f.ensures((&r->0,), true),
            r is None ==> forall|i: int| 0 <= i < iter_seq(*old(it)).unref().len() ==> f.ensures((&&#[trigger] iter_seq(*old(it)).unref()[i],), false);
//# section: stdspec-string-eq-str
    // TRUSTED: String == &str / String == str compare the character sequences (std).
    pub assume_specification<'a> [<String as PartialEq<&'a str>>::eq] (a: &String, b: &&str) -> (r: bool)
        ensures r <==> a@ == (*b)@;
    pub assume_specification [<String as PartialEq<str>>::eq] (a: &String, b: &str) -> (r: bool)
        ensures r <==> a@ == b@;
    // TRUSTED: `!=` is the negation of `==` for these impls (std's default PartialEq::ne).
    pub assume_specification<'a> [<String as PartialEq<&'a str>>::ne] (a: &String, b: &&str) -> (r: bool)
        ensures r <==> a@ != (*b)@;
    pub assume_specification [<String as PartialEq<str>>::ne] (a: &String, b: &str) -> (r: bool)
        ensures r <==> a@ != b@;
//# section: stdspec-lowercase
    pub uninterp spec fn lowercase(s: Seq<char>) -> Seq<char>;
    // TRUSTED: str::to_lowercase is a function of the text.
    pub assume_specification [str::to_lowercase] (s: &str) -> (r: String)
        ensures r@ == lowercase(s@);
//# section: stdspec-extend
    // TRUSTED: Extend::extend appends the items of the argument (Vec) / inserts them, later keys winning (HashMap).
    pub uninterp spec fn into_seq<I, T>(i: I) -> Seq<T>;
    pub assume_specification<T, A: core::alloc::Allocator, I: IntoIterator<Item = T>> [<Vec<T, A> as Extend<T>>::extend] (v: &mut Vec<T, A>, i: I)
        ensures (*final(v))@ == (*old(v))@ + into_seq::<I, T>(i);
    pub uninterp spec fn into_map<I, K, V>(i: I) -> Map<K, V>;
    pub assume_specification<K: Eq + core::hash::Hash, V, S: core::hash::BuildHasher, A: core::alloc::Allocator, T: IntoIterator<Item = (K, V)>>
        [<std::collections::HashMap<K, V, S, A> as Extend<(K, V)>>::extend] (m: &mut std::collections::HashMap<K, V, S, A>, i: T)
        ensures (*final(m))@ == (*old(m))@.union_prefer_right(into_map::<T, K, V>(i));
//# section: stdspec-assert-failed
    // assert!/assert_eq!/assert_ne! panic through core::panicking::assert_failed: reaching it is an obligation
    #[verifier::external_type_specification]
    pub struct ExAssertKind(core::panicking::AssertKind);
    pub assume_specification<T: core::fmt::Debug + ?Sized, U: core::fmt::Debug + ?Sized> [core::panicking::assert_failed] (k: core::panicking::AssertKind, a: &T, b: &U, m: Option<core::fmt::Arguments<'_>>) -> !
        requires false; // [label: assertion-holds]
//# section: stdspec-split-once
    // `split_once_spec(s, p)`: the result of str::split_once as character sequences (None: the pattern does not occur)
    pub uninterp spec fn split_once_spec<P>(s: Seq<char>, p: P) -> Option<(Seq<char>, Seq<char>)>;
    // TRUSTED: str::split_once is a function of the text and the pattern.
    #[verifier::allow(undeclared_external_trait)]
    pub assume_specification<'a, P: core::str::pattern::Pattern> [str::split_once::<P>] (s: &'a str, p: P) -> (r: Option<(&'a str, &'a str)>)
        ensures
            r is Some <==> split_once_spec::<P>(s@, p) is Some,
            r is Some ==> (r->0).0@ == (split_once_spec::<P>(s@, p)->0).0 && (r->0).1@ == (split_once_spec::<P>(s@, p)->0).1;
//# section: stdspec-option-combinators
    // TRUSTED: Option / Result combinators (std docs), stated through the closure's own contract.
    pub assume_specification<T, F: FnOnce() -> Option<T>> [Option::<T>::or_else::<F>] (o: Option<T>, f: F) -> (r: Option<T>)
        requires o is None ==> f.requires(()),
        ensures o is Some ==> r == o, o is None ==> f.ensures((), r);
    pub assume_specification<T> [Option::<T>::or] (o: Option<T>, b: Option<T>) -> (r: Option<T>)
        ensures o is Some ==> r == o, o is None ==> r == b;
    pub assume_specification<T, P: FnOnce(&T) -> bool> [Option::<T>::filter::<P>] (o: Option<T>, p: P) -> (r: Option<T>)
        requires o is Some ==> p.requires((&o->0,)),
        ensures o is None ==> r is None, o is Some ==> (p.ensures((&o->0,), true) ==> r == o) && (p.ensures((&o->0,), false) ==> r is None), r is Some ==> r == o;
    pub assume_specification<T, F: FnOnce(T) -> bool> [Option::<T>::is_some_and] (o: Option<T>, f: F) -> (r: bool)
        requires o is Some ==> f.requires((o->0,)),
        ensures o is None ==> !r, o is Some ==> f.ensures((o->0,), r);
    pub assume_specification<T, U, F: FnOnce(T) -> U> [Option::<T>::map_or::<U, F>] (o: Option<T>, d: U, f: F) -> (r: U)
        requires o is Some ==> f.requires((o->0,)),
        ensures o is None ==> r == d, o is Some ==> f.ensures((o->0,), r);
    pub assume_specification<T, E, U, F: FnOnce(T) -> Result<U, E>> [Result::<T, E>::and_then::<U, F>] (x: Result<T, E>, f: F) -> (r: Result<U, E>)
        requires x is Ok ==> f.requires((x->Ok_0,)),
        ensures x is Err ==> r is Err && r->Err_0 == x->Err_0, x is Ok ==> f.ensures((x->Ok_0,), r);
    pub assume_specification<T, E> [Result::<T, E>::unwrap_or] (x: Result<T, E>, d: T) -> (r: T)
        ensures x is Ok ==> r == x->Ok_0, x is Err ==> r == d;
//# section: stdspec-starts-with
    // `starts_with_spec(s, p)`: the result of str::starts_with (a function of the text and the pattern)
    pub uninterp spec fn starts_with_spec<P>(s: Seq<char>, p: P) -> bool;
    #[verifier::allow(undeclared_external_trait)]
    pub assume_specification<P: core::str::pattern::Pattern> [str::starts_with::<P>] (s: &str, p: P) -> (r: bool)
        ensures r == starts_with_spec::<P>(s@, p);
//# section: stdspec-trim
    // `trim_spec(s)`: the result of str::trim (a function of the text)
    pub uninterp spec fn trim_spec(s: Seq<char>) -> Seq<char>;
    pub assume_specification [str::trim] (s: &str) -> (r: &str)
        ensures r@ == trim_spec(s@);
//# section: stdspec-rsplit-once
    pub uninterp spec fn rsplit_once_spec<P>(s: Seq<char>, p: P) -> Option<(Seq<char>, Seq<char>)>;
    #[verifier::allow(undeclared_external_trait)]
    pub assume_specification<'a, P: core::str::pattern::Pattern> [str::rsplit_once::<P>] (s: &'a str, p: P) -> (r: Option<(&'a str, &'a str)>)
        where for<'b> <P as core::str::pattern::Pattern>::Searcher<'b>: core::str::pattern::ReverseSearcher<'b>
        ensures
            r is Some <==> rsplit_once_spec::<P>(s@, p) is Some,
            r is Some ==> (r->0).0@ == (rsplit_once_spec::<P>(s@, p)->0).0 && (r->0).1@ == (rsplit_once_spec::<P>(s@, p)->0).1;
//# section: stdspec-saturating
    // TRUSTED: {signed integer}::saturating_add / saturating_sub clamp the mathematical result to the type's range
    // (std docs; vstd itself specifies the unsigned ones).
    pub assume_specification [i8::saturating_add] (a: i8, b: i8) -> (r: i8)
        ensures (a + b > i8::MAX ==> r == i8::MAX), (a + b < i8::MIN ==> r == i8::MIN),
                (i8::MIN <= a + b <= i8::MAX ==> r == a + b);
    pub assume_specification [i8::saturating_sub] (a: i8, b: i8) -> (r: i8)
        ensures (a - b > i8::MAX ==> r == i8::MAX), (a - b < i8::MIN ==> r == i8::MIN),
                (i8::MIN <= a - b <= i8::MAX ==> r == a - b);
    pub assume_specification [i16::saturating_add] (a: i16, b: i16) -> (r: i16)
        ensures (a + b > i16::MAX ==> r == i16::MAX), (a + b < i16::MIN ==> r == i16::MIN),
                (i16::MIN <= a + b <= i16::MAX ==> r == a + b);
    pub assume_specification [i16::saturating_sub] (a: i16, b: i16) -> (r: i16)
        ensures (a - b > i16::MAX ==> r == i16::MAX), (a - b < i16::MIN ==> r == i16::MIN),
                (i16::MIN <= a - b <= i16::MAX ==> r == a - b);
    pub assume_specification [i32::saturating_add] (a: i32, b: i32) -> (r: i32)
        ensures (a + b > i32::MAX ==> r == i32::MAX), (a + b < i32::MIN ==> r == i32::MIN),
                (i32::MIN <= a + b <= i32::MAX ==> r == a + b);
    pub assume_specification [i32::saturating_sub] (a: i32, b: i32) -> (r: i32)
        ensures (a - b > i32::MAX ==> r == i32::MAX), (a - b < i32::MIN ==> r == i32::MIN),
                (i32::MIN <= a - b <= i32::MAX ==> r == a - b);
    pub assume_specification [i64::saturating_add] (a: i64, b: i64) -> (r: i64)
        ensures (a + b > i64::MAX ==> r == i64::MAX), (a + b < i64::MIN ==> r == i64::MIN),
                (i64::MIN <= a + b <= i64::MAX ==> r == a + b);
    pub assume_specification [i64::saturating_sub] (a: i64, b: i64) -> (r: i64)
        ensures (a - b > i64::MAX ==> r == i64::MAX), (a - b < i64::MIN ==> r == i64::MIN),
                (i64::MIN <= a - b <= i64::MAX ==> r == a - b);
    pub assume_specification [i128::saturating_add] (a: i128, b: i128) -> (r: i128)
        ensures (a + b > i128::MAX ==> r == i128::MAX), (a + b < i128::MIN ==> r == i128::MIN),
                (i128::MIN <= a + b <= i128::MAX ==> r == a + b);
    pub assume_specification [i128::saturating_sub] (a: i128, b: i128) -> (r: i128)
        ensures (a - b > i128::MAX ==> r == i128::MAX), (a - b < i128::MIN ==> r == i128::MIN),
                (i128::MIN <= a - b <= i128::MAX ==> r == a - b);
    pub assume_specification [isize::saturating_add] (a: isize, b: isize) -> (r: isize)
        ensures (a + b > isize::MAX ==> r == isize::MAX), (a + b < isize::MIN ==> r == isize::MIN),
                (isize::MIN <= a + b <= isize::MAX ==> r == a + b);
    pub assume_specification [isize::saturating_sub] (a: isize, b: isize) -> (r: isize)
        ensures (a - b > isize::MAX ==> r == isize::MAX), (a - b < isize::MIN ==> r == isize::MIN),
                (isize::MIN <= a - b <= isize::MAX ==> r == a - b);
//# section: stdspec-char-class
    // TRUSTED: char::is_ascii_alphanumeric / is_ascii_digit are the ASCII ranges the std docs list.
    pub open spec fn ascii_alnum(c: char) -> bool { ('a' <= c && c <= 'z') || ('A' <= c && c <= 'Z') || ('0' <= c && c <= '9') }
    pub open spec fn ascii_digit(c: char) -> bool { '0' <= c && c <= '9' }
    pub assume_specification [char::is_ascii_alphanumeric] (c: &char) -> (b: bool) ensures b == ascii_alnum(*c);
    pub assume_specification [char::is_ascii_digit] (c: &char) -> (b: bool) ensures b == ascii_digit(*c);
//# section: stdspec-present-chars
    // PRESENTATION stand-ins (Verus has no specification for str::Chars adapters, nor for format!).  Each stands for
    // one std expression, named in its comment; the meaning relied on is std's documented one and is ASSUMED.
    // `S.chars().filter(F).collect::<String>()`: every char of the result satisfies F (stated through F's own
    // postcondition) and occurs in S; a text whose chars all satisfy F is kept whole.
    #[verifier::external_body]
    pub fn chars_filter_collect<F: Fn(&char) -> bool>(s: &str, f: F) -> (res: String)
        requires forall|c: char| f.requires((&c,)),
        ensures forall|i: int| 0 <= i < res@.len() ==> f.ensures((&#[trigger] res@[i],), true),
                forall|i: int| 0 <= i < res@.len() ==> s@.contains(#[trigger] res@[i]),
                (forall|i: int| 0 <= i < s@.len() ==> f.ensures((&#[trigger] s@[i],), true)) ==> res@ == s@,
    { unimplemented!() }
    // `S.chars().filter(F).take(N).collect::<String>()`: as above, and at most N chars.
    #[verifier::external_body]
    pub fn chars_filter_take_collect<F: Fn(&char) -> bool>(s: &str, f: F, n: usize) -> (res: String)
        requires forall|c: char| f.requires((&c,)),
        ensures forall|i: int| 0 <= i < res@.len() ==> f.ensures((&#[trigger] res@[i],), true),
                forall|i: int| 0 <= i < res@.len() ==> s@.contains(#[trigger] res@[i]),
                res@.len() <= n,
    { unimplemented!() }
    // `S.chars().next()`: the first char of S, if any.
    #[verifier::external_body]
    pub fn first_char(s: &String) -> (r: Option<char>)
        ensures s@.len() == 0 ==> r is None, s@.len() > 0 ==> r == Some(s@[0]),
    { unimplemented!() }
    // `format!("P{S}")` with a literal prefix P and one Display placeholder for a String: P followed by S.
    #[verifier::external_body]
    pub fn fmt_prefix(p: &'static str, s: &String) -> (r: String)
        ensures r@ == p@ + s@,
    { unimplemented!() }
//# section: stdspec-arc-count
    // TRUSTED (on demand): Arc::strong_count / weak_count return SOME count (at least one strong reference exists while `a` is
    // borrowed); nothing else is known about it - how many clones are alive is caller history, so code whose result depends on
    // the count cannot be shown to have the wrapped value's verdict.
    pub assume_specification<T: ?Sized, A: core::alloc::Allocator> [std::sync::Arc::<T, A>::strong_count] (a: &std::sync::Arc<T, A>) -> (n: usize)
        ensures n >= 1;
    pub assume_specification<T: ?Sized, A: core::alloc::Allocator> [std::sync::Arc::<T, A>::weak_count] (a: &std::sync::Arc<T, A>) -> (n: usize);
//# section: stdspec-string-build
    // TRUSTED (on demand): String::with_capacity yields an empty String and touches no sink (push_str / push are specified by vstd).
    pub assume_specification [String::with_capacity] (n: usize) -> (r: String) ensures r@ == Seq::<char>::empty();
//# section: stdspec-drop
    pub assume_specification<T> [core::mem::drop::<T>] (x: T);
//# section: stdspec-end
}
