// Contract-only declarations of the yaserde / xml-rs / std::io items that multi_ref and helpers name
// (trusted base).  The traits carry the REAL method signatures of yaserde 0.12 plus an uninterpreted
// per-type effect function, so "MultiRef<T> forwards to T" can be stated as an equality of effects.
//# section: io-traits
pub mod iospec {
    use vstd::prelude::*;
    #[verifier::external_trait_specification]
    pub trait ExRead {
        type ExternalTraitSpecificationFor: std::io::Read;
    }
//# section: io-write-trait-opaque
    #[verifier::external_trait_specification]
    pub trait ExWrite {
        type ExternalTraitSpecificationFor: std::io::Write;
    }
//# section: io-traits-end
}
//# section: xml
pub mod xml {
    pub mod attribute { use vstd::prelude::*; #[verifier::external_body] pub struct OwnedAttribute { _p: () }
        impl Clone for OwnedAttribute { #[verifier::external_body] fn clone(&self) -> (r: Self) ensures r == *self { unimplemented!() } } }
    pub mod namespace { use vstd::prelude::*; #[verifier::external_body] pub struct Namespace { _p: () }
        impl Clone for Namespace { #[verifier::external_body] fn clone(&self) -> (r: Self) ensures r == *self { unimplemented!() } }
        impl Namespace { #[verifier::external_body] pub fn empty() -> Namespace { unimplemented!() } } }
}
//# section: yaserde-begin
pub mod yaserde {
    use vstd::prelude::*;
    use crate::xml;
    // the (derive-generated) XML text of a value / the value denoted by an XML text: uninterpreted
    pub uninterp spec fn ser_string<T>(x: T) -> Result<Seq<char>, String>;
    pub uninterp spec fn de_string<T>(s: Seq<char>) -> Result<T, String>;
    pub mod de { use vstd::prelude::*;
        #[verifier::external_body] #[verifier::reject_recursive_types(R)] pub struct Deserializer<R> { _p: core::marker::PhantomData<R> }
        #[verifier::external_body]
        pub fn from_str<T: super::YaDeserialize>(s: &str) -> (r: Result<T, String>)
            ensures r == super::de_string::<T>(s@)
        { unimplemented!() }
    }
    pub mod ser { use vstd::prelude::*;
        #[verifier::external_body] #[verifier::reject_recursive_types(W)] pub struct Serializer<W> { _p: core::marker::PhantomData<W> }
        #[verifier::external_body]
        pub fn to_string<T: super::YaSerialize>(model: &T) -> (r: Result<String, String>)
            ensures r is Ok <==> super::ser_string::<T>(*model) is Ok,
                    r is Ok ==> r->Ok_0@ == super::ser_string::<T>(*model)->Ok_0,
                    r is Err ==> Err::<Seq<char>, String>(r->Err_0) == super::ser_string::<T>(*model),
        { unimplemented!() }
    }
//# section: yaserde-traits
    // de_spec / ser_spec / ser_attrs_spec: what the type's (derive-generated) impl does to the reader /
    // writer / attribute list — uninterpreted for a generic T.
    pub trait YaDeserialize: Sized {
        spec fn de_spec<R>(reader: de::Deserializer<R>) -> (Result<Self, String>, de::Deserializer<R>);
        fn deserialize<R: std::io::Read>(reader: &mut de::Deserializer<R>) -> (res: Result<Self, String>)
            ensures (res, *final(reader)) == Self::de_spec::<R>(*old(reader)); // [label: deserializes-as-inner]
    }
    pub trait YaSerialize: Sized {
        spec fn ser_spec<W>(&self, writer: ser::Serializer<W>) -> (Result<(), String>, ser::Serializer<W>);
        spec fn ser_attrs_spec(&self, attributes: Vec<xml::attribute::OwnedAttribute>, namespace: xml::namespace::Namespace)
            -> Result<(Vec<xml::attribute::OwnedAttribute>, xml::namespace::Namespace), String>;
        fn serialize<W: std::io::Write>(&self, writer: &mut ser::Serializer<W>) -> (res: Result<(), String>)
            ensures (res, *final(writer)) == self.ser_spec::<W>(*old(writer)); // [label: serializes-as-inner]
        fn serialize_attributes(&self, attributes: Vec<xml::attribute::OwnedAttribute>, namespace: xml::namespace::Namespace)
            -> (res: Result<(Vec<xml::attribute::OwnedAttribute>, xml::namespace::Namespace), String>)
            ensures res == self.ser_attrs_spec(attributes, namespace); // [label: attributes-as-inner]
    }
//# section: yaserde-end
}
