// Stand-ins for derive-generated code that the extraction drops with the attribute lines (trusted base).
//# section: thiserror-from
    // thiserror's `#[from]` on WriterError::Io / WriterError::Xml generates exactly these conversions.
    impl vstd::std_specs::convert::FromSpecImpl<std::io::Error> for WriterError {
        open spec fn obeys_from_spec() -> bool { true }
        open spec fn from_spec(v: std::io::Error) -> Self { WriterError::Io { source: v } }
    }
    impl From<std::io::Error> for WriterError {
        fn from(source: std::io::Error) -> (r: Self) { WriterError::Io { source } }
    }
//# section: rustfieldtype-display
    // `impl Display for RustFieldType` (field.rs) formats into an in-memory Formatter; it is not a sink
    // writer and is left unverified: declared here without a body.
    impl core::fmt::Display for RustFieldType {
        #[verifier::external_body]
        fn fmt(&self, f: &mut core::fmt::Formatter<'_>) -> core::fmt::Result { unimplemented!() }
    }
    impl vstd::std_specs::fmt::DisplaySpecImpl for RustFieldType {
        open spec fn fmt_req(&self, f: &core::fmt::Formatter<'_>) -> bool { true }
    }
//# section: namespace-eq
    // `#[derive(PartialEq)] struct Namespace` (dropped with the attribute line): field-wise string equality.
    pub open spec fn ns_same(a: Namespace, b: Namespace) -> bool {
        a.namespace@ == b.namespace@ && a.abbreviation@ == b.abbreviation@ && a.rust_mod_name@ == b.rust_mod_name@
    }
    impl vstd::std_specs::cmp::PartialEqSpecImpl for Namespace {
        open spec fn obeys_eq_spec() -> bool { true }
        open spec fn eq_spec(&self, other: &Namespace) -> bool { ns_same(*self, *other) }
    }
    impl PartialEq for Namespace {
        #[verifier::external_body]
        fn eq(&self, other: &Self) -> (r: bool)
            ensures r == ns_same(*self, *other)
        { unimplemented!() }
    }
