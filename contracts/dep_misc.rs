// Contract-only stand-ins for the remaining third-party items the generator's functions name
// (trusted base): Inflector case conversion, reqwest::Url, roxmltree::Error, const_format macros.
//# section: inflector
pub mod inflector {
    pub mod cases {
        pub mod pascalcase { use vstd::prelude::*;
            pub uninterp spec fn pascal(s: Seq<char>) -> Seq<char>;
            #[verifier::external_body]
            pub fn to_pascal_case(s: &str) -> (r: String) ensures r@ == pascal(s@) { unimplemented!() }
        }
        pub mod snakecase { use vstd::prelude::*;
            pub uninterp spec fn snake(s: Seq<char>) -> Seq<char>;
            #[verifier::external_body]
            pub fn to_snake_case(s: &str) -> (r: String) ensures r@ == snake(s@) { unimplemented!() }
        }
    }
}
//# section: url
pub mod url_standin {
    use vstd::prelude::*;
    #[verifier::external_body]
    pub struct Url { _p: () }
    impl Url {
        // contract-only stand-in: the serialization of the URL (total, no precondition)
        #[verifier::external_body]
        pub fn as_str(&self) -> &str { unimplemented!() }
    }
    impl core::fmt::Display for Url {
        #[verifier::external_body]
        fn fmt(&self, f: &mut core::fmt::Formatter<'_>) -> core::fmt::Result { unimplemented!() }
    }
    impl vstd::std_specs::fmt::DisplaySpecImpl for Url {
        open spec fn fmt_req(&self, f: &core::fmt::Formatter<'_>) -> bool { true }
    }
}
//# section: roxmltree-error
pub mod roxmltree {
    use vstd::prelude::*;
    #[verifier::external_body]
    pub struct Error { _p: () }
}
//# section: roxmltree-node
// Contract-only stand-in for the part of roxmltree the flattening functions use (unit X).  A Node is an opaque Copy handle; the
// document tree is described by uninterpreted functions (attr, tag, is_elem, parent_of, all_kids, elem_kids, height).
pub mod roxmltree {
    use vstd::prelude::*;
    #[verifier::external_body]
    pub struct Error { _p: () }
    // contract-only stand-in for roxmltree::Node: an opaque Copy handle; the document tree is described by uninterpreted functions
    #[verifier::external_body]
    pub struct Node<'a, 'input: 'a> { _p: core::marker::PhantomData<(&'a (), &'input ())> }
    impl<'a, 'input: 'a> Clone for Node<'a, 'input> {
        #[verifier::external_body]
        fn clone(&self) -> (r: Self) ensures r == *self { unimplemented!() }
    }
    impl<'a, 'input: 'a> Copy for Node<'a, 'input> {}
    #[verifier::external_body]
    pub struct ExpandedName<'a, 'b> { _p: core::marker::PhantomData<(&'a (), &'b ())> }
    pub uninterp spec fn attr(n: Node, name: Seq<char>) -> Option<Seq<char>>;
    pub uninterp spec fn tag(n: Node) -> Seq<char>;
    pub uninterp spec fn is_elem(n: Node) -> bool;
    pub uninterp spec fn parent_of<'a, 'b>(n: Node<'a, 'b>) -> Option<Node<'a, 'b>>;
    pub uninterp spec fn elem_kids<'a, 'b>(n: Node<'a, 'b>) -> Seq<Node<'a, 'b>>;
    pub uninterp spec fn height(n: Node) -> nat;
    pub uninterp spec fn en_local(e: ExpandedName) -> Seq<char>;
    // TRUSTED: a document is a finite tree: every child is strictly lower than its parent
    pub broadcast axiom fn kid_lower(n: Node, i: int)
        requires 0 <= i < elem_kids(n).len()
        ensures height(#[trigger] elem_kids(n)[i]) < height(n), is_elem(elem_kids(n)[i]), parent_of(elem_kids(n)[i]) == Some(n);
    impl<'a, 'input: 'a> Node<'a, 'input> {
        #[verifier::external_body]
        pub fn attribute(&self, name: &str) -> (r: Option<&'a str>)
            ensures match r { Some(v) => attr(*self, name@) == Some(v@), None => attr(*self, name@) is None }
        { unimplemented!() }
        #[verifier::external_body]
        pub fn tag_name(&self) -> (r: ExpandedName<'a, 'input>) ensures en_local(r) == tag(*self) { unimplemented!() }
        #[verifier::external_body]
        pub fn is_element(&self) -> (r: bool) ensures r == is_elem(*self) { unimplemented!() }
        #[verifier::external_body]
        pub fn parent(&self) -> (r: Option<Node<'a, 'input>>) ensures r == parent_of(*self) { unimplemented!() }
    }
    impl<'a, 'b> ExpandedName<'a, 'b> {
        #[verifier::external_body]
        pub fn name(&self) -> (r: &'a str) ensures r@ == en_local(*self) { unimplemented!() }
    }
    pub uninterp spec fn all_kids<'a, 'b>(n: Node<'a, 'b>) -> Seq<Node<'a, 'b>>;
    // TRUSTED: the element children are exactly the children that are elements (what `.filter(Node::is_element)` keeps)
    pub broadcast axiom fn elem_kid_is_kid(n: Node, i: int)
        requires 0 <= i < elem_kids(n).len()
        ensures all_kids(n).contains(#[trigger] elem_kids(n)[i]);
    pub broadcast axiom fn kid_elem_is_elem_kid(n: Node, i: int)
        requires 0 <= i < all_kids(n).len(), is_elem(#[trigger] all_kids(n)[i])
        ensures elem_kids(n).contains(all_kids(n)[i]);
    #[verifier::external_body]
    pub struct Children<'a, 'input: 'a> { _p: core::marker::PhantomData<(&'a (), &'input ())> }
    pub uninterp spec fn ch_seq<'a, 'b>(c: Children<'a, 'b>) -> Seq<Node<'a, 'b>>;
    impl<'a, 'input: 'a> Node<'a, 'input> {
        #[verifier::external_body]
        pub fn children(&self) -> (r: Children<'a, 'input>) ensures ch_seq(r) == all_kids(*self) { unimplemented!() }
    }
    impl<'a, 'input: 'a> Children<'a, 'input> {
        // Iterator::find / Iterator::any of roxmltree::Children (std docs), stated through the closure's own postcondition
        #[verifier::external_body]
        pub fn find<P: FnMut(&Node<'a, 'input>) -> bool>(&mut self, p: P) -> (r: Option<Node<'a, 'input>>)
            requires forall|x: &Node<'a, 'input>| p.requires((x,)),
            ensures
                r is Some ==> exists|i: int| 0 <= i < ch_seq(*old(self)).len() && r->0 == #[trigger] ch_seq(*old(self))[i] && p.ensures((&r->0,), true)
                    && forall|j: int| 0 <= j < i ==> p.ensures((&#[trigger] ch_seq(*old(self))[j],), false),
                r is None ==> forall|i: int| 0 <= i < ch_seq(*old(self)).len() ==> p.ensures((&#[trigger] ch_seq(*old(self))[i],), false),
        { unimplemented!() }
        #[verifier::external_body]
        pub fn any<P: FnMut(Node<'a, 'input>) -> bool>(&mut self, p: P) -> (r: bool)
            requires forall|x: Node<'a, 'input>| p.requires((x,)),
            ensures
                r ==> exists|i: int| 0 <= i < ch_seq(*old(self)).len() && p.ensures((#[trigger] ch_seq(*old(self))[i],), true),
                !r ==> forall|i: int| 0 <= i < ch_seq(*old(self)).len() ==> p.ensures((#[trigger] ch_seq(*old(self))[i],), false),
        { unimplemented!() }
    }
    // ---- ancestors chain (roxmltree::Node::ancestors + std skip / take_while / collect), stated through the closure's own postcondition
    pub uninterp spec fn anc<'a, 'b>(n: Node<'a, 'b>) -> Seq<Node<'a, 'b>>;
    // TRUSTED: ancestors() yields the node itself, then its parent, and so on up to the root
    pub broadcast axiom fn anc_chain(n: Node)
        ensures #[trigger] anc(n).len() >= 1, anc(n)[0] == n,
            forall|i: int| 0 <= i < anc(n).len() - 1 ==> parent_of(#[trigger] anc(n)[i]) == Some(anc(n)[i + 1]),
            parent_of(anc(n)[anc(n).len() - 1]) is None;
    #[verifier::external_body]
    pub struct Ancestors<'a, 'input: 'a> { _p: core::marker::PhantomData<(&'a (), &'input ())> }
    pub uninterp spec fn an_seq<'a, 'b>(c: Ancestors<'a, 'b>) -> Seq<Node<'a, 'b>>;
    #[verifier::external_body]
    #[verifier::reject_recursive_types(P)]
    pub struct AncTakeWhile<'a, 'input: 'a, P> { _p: core::marker::PhantomData<(&'a (), &'input (), P)> }
    pub uninterp spec fn tw_seq<'a, 'b, P>(c: AncTakeWhile<'a, 'b, P>) -> Seq<Node<'a, 'b>>;
    pub uninterp spec fn tw_pred<'a, 'b, P>(c: AncTakeWhile<'a, 'b, P>) -> P;
    impl<'a, 'input: 'a> Node<'a, 'input> {
        #[verifier::external_body]
        pub fn ancestors(&self) -> (r: Ancestors<'a, 'input>) ensures an_seq(r) == anc(*self) { unimplemented!() }
    }
    impl<'a, 'input: 'a> Ancestors<'a, 'input> {
        #[verifier::external_body]
        pub fn skip(self, k: usize) -> (r: Ancestors<'a, 'input>) ensures an_seq(r) == an_seq(self).skip(k as int) { unimplemented!() }
        #[verifier::external_body]
        pub fn take_while<P: FnMut(&Node<'a, 'input>) -> bool>(self, p: P) -> (r: AncTakeWhile<'a, 'input, P>)
            ensures tw_seq(r) == an_seq(self), tw_pred(r) == p { unimplemented!() }
    }
    impl<'a, 'input: 'a, P: FnMut(&Node<'a, 'input>) -> bool> AncTakeWhile<'a, 'input, P> {
        #[verifier::external_body]
        pub fn collect(self) -> (r: Vec<Node<'a, 'input>>)
            requires forall|x: &Node<'a, 'input>| tw_pred(self).requires((x,)),
            ensures
                r@.len() <= tw_seq(self).len(),
                forall|i: int| 0 <= i < r@.len() ==> r@[i] == tw_seq(self)[i] && tw_pred(self).ensures((&#[trigger] tw_seq(self)[i],), true),
                r@.len() < tw_seq(self).len() ==> tw_pred(self).ensures((&tw_seq(self)[r@.len() as int],), false),
        { unimplemented!() }
    }
    // ---- namespace declarations in scope of a node (roxmltree::Node::namespaces yields roxmltree::Namespace items: prefix or None, and URI)
    #[verifier::external_body]
    pub struct XmlNs<'a> { _p: core::marker::PhantomData<&'a ()> }
    pub uninterp spec fn xns_name(n: XmlNs) -> Option<Seq<char>>;
    pub uninterp spec fn xns_uri(n: XmlNs) -> Seq<char>;
    pub uninterp spec fn declared_ns<'a, 'b>(n: Node<'a, 'b>) -> Seq<XmlNs<'b>>;
    impl<'a> XmlNs<'a> {
        #[verifier::external_body]
        pub fn name(&self) -> (r: Option<&'a str>)
            ensures match r { Some(v) => xns_name(*self) == Some(v@), None => xns_name(*self) is None }
        { unimplemented!() }
        #[verifier::external_body]
        pub fn uri(&self) -> (r: &'a str) ensures r@ == xns_uri(*self) { unimplemented!() }
    }
    // presentation of `N.namespaces()`: the namespace declarations as a Vec, in roxmltree's order
    #[verifier::external_body]
    pub fn declared_namespaces<'a, 'input: 'a>(n: Node<'a, 'input>) -> (r: Vec<XmlNs<'input>>)
        ensures r@ == declared_ns(n)
    { unimplemented!() }
    // presentation of `N.children().filter(Node::is_element)`: the element children of N, in document order
    #[verifier::external_body]
    pub fn element_children<'a, 'input: 'a>(n: Node<'a, 'input>) -> (r: Vec<Node<'a, 'input>>)
        ensures r@ == elem_kids(n)
    { unimplemented!() }
}
