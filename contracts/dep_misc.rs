// Contract-only stand-ins for the remaining third-party items the generator's functions name
// (trusted base): Inflector case conversion, reqwest::Url, roxmltree::Error, const_format macros.
//# section: inflector
pub mod inflector {
    pub mod cases {
        pub mod pascalcase { use vstd::prelude::*;
            pub uninterp spec fn pascal(s: Seq<char>) -> Seq<char>;
            #[verifier::external_body]
            pub fn to_pascal_case(s: &str) -> (r: String) ensures r@ == pascal(s@) { unimplemented!() }
        }
        pub mod snakecase { use vstd::prelude::*;
            pub uninterp spec fn snake(s: Seq<char>) -> Seq<char>;
            #[verifier::external_body]
            pub fn to_snake_case(s: &str) -> (r: String) ensures r@ == snake(s@) { unimplemented!() }
        }
    }
}
//# section: url
pub mod url_standin {
    use vstd::prelude::*;
    #[verifier::external_body]
    pub struct Url { _p: () }
    impl Url {
        // contract-only stand-in: the serialization of the URL (total, no precondition)
        #[verifier::external_body]
        pub fn as_str(&self) -> &str { unimplemented!() }
    }
    impl core::fmt::Display for Url {
        #[verifier::external_body]
        fn fmt(&self, f: &mut core::fmt::Formatter<'_>) -> core::fmt::Result { unimplemented!() }
    }
    impl vstd::std_specs::fmt::DisplaySpecImpl for Url {
        open spec fn fmt_req(&self, f: &core::fmt::Formatter<'_>) -> bool { true }
    }
}
//# section: roxmltree-error
pub mod roxmltree {
    use vstd::prelude::*;
    #[verifier::external_body]
    pub struct Error { _p: () }
}
