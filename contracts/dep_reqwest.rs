// Contract-only stand-in for the parts of `reqwest` (0.12) that zeep's helper code names (trusted base).
// A request builder carries a ghost model of the request; every network-capable call requires
// `net_allowed()`; `send` additionally requires that the request is the one the caller was asked
// to send (`want_*`, tied to the caller's arguments by the caller's own precondition).
//# section: reqwest-begin
pub mod reqwest {
    use vstd::prelude::*;
//# section: reqwest-error
    #[verifier::external_body]
    pub struct Error { _p: () }
    impl Error {
        #[verifier::external_body] pub fn is_request(&self) -> bool { unimplemented!() }
        #[verifier::external_body] pub fn is_connect(&self) -> bool { unimplemented!() }
        #[verifier::external_body] pub fn is_timeout(&self) -> bool { unimplemented!() }
        #[verifier::external_body] pub fn is_status(&self) -> bool { unimplemented!() }
        #[verifier::external_body] pub fn is_body(&self) -> bool { unimplemented!() }
        #[verifier::external_body] pub fn is_decode(&self) -> bool { unimplemented!() }
    }
//# section: reqwest-client
    pub struct ReqModel {
        pub post: bool,
        pub url: Seq<char>,
        pub body: Option<Seq<char>>,
        pub auth: Option<(Seq<char>, Option<Seq<char>>)>,
    }
    pub struct RespModel { pub status: int, pub body: Seq<char> }

    // ghost parameters of one exchange
    pub uninterp spec fn net_allowed() -> bool;
    pub uninterp spec fn want_url() -> Seq<char>;
    pub uninterp spec fn want_body() -> Seq<char>;
    pub uninterp spec fn want_auth() -> Option<(Seq<char>, Option<Seq<char>>)>;
    pub uninterp spec fn transport_ok() -> bool;      // the request reached the server and a response head came back
    pub uninterp spec fn the_response() -> RespModel; // that response
    pub uninterp spec fn body_read_ok() -> bool;      // the response body could be read completely as text
    // text produced by Display for a value
    pub uninterp spec fn display<T>(x: T) -> Seq<char>;

    #[verifier::external_body]
    pub struct Client { _p: () }
    #[verifier::external_body]
    pub struct RequestBuilder { _p: () }
    #[verifier::external_body]
    pub struct Response { _p: () }

    pub trait IntoUrl { spec fn url_view(&self) -> Seq<char>; }
    impl IntoUrl for &str { open spec fn url_view(&self) -> Seq<char> { self@ } }
    impl IntoUrl for &String { open spec fn url_view(&self) -> Seq<char> { self@ } }
    impl IntoUrl for String { open spec fn url_view(&self) -> Seq<char> { self@ } }
    pub trait IntoBody { spec fn body_view(&self) -> Seq<char>; }
    impl IntoBody for String { open spec fn body_view(&self) -> Seq<char> { self@ } }
    impl IntoBody for &str { open spec fn body_view(&self) -> Seq<char> { self@ } }

    impl Client {
        #[verifier::external_body]
        pub fn new() -> (c: Client) { unimplemented!() }
        // builds a request, performs no I/O
        #[verifier::external_body]
        pub fn post<U: IntoUrl>(&self, url: U) -> (b: RequestBuilder)
            ensures b.model() == (ReqModel { post: true, url: url.url_view(), body: None, auth: None }), b.unsent()
        { unimplemented!() }
    }
    impl RequestBuilder {
        pub uninterp spec fn model(&self) -> ReqModel;
        // ghost: this builder carries the (single) right to put its request on the wire; a clone does not
        pub uninterp spec fn unsent(&self) -> bool;
        #[verifier::external_body]
        pub fn body<T: IntoBody>(self, body: T) -> (b: RequestBuilder)
            ensures b.model() == (ReqModel { body: Some(body.body_view()), ..self.model() }), b.unsent() == self.unsent()
        { unimplemented!() }
        #[verifier::external_body]
        pub fn try_clone(&self) -> (c: Option<RequestBuilder>)
            ensures c is Some ==> c->0.model() == self.model() && !c->0.unsent()
        { unimplemented!() }
        #[verifier::external_body]
        pub fn basic_auth<U: core::fmt::Display, P: core::fmt::Display>(self, username: U, password: Option<P>) -> (b: RequestBuilder)
            ensures b.model() == (ReqModel {
                auth: Some((display(username), match password { Some(p) => Some(display(p)), None => None })), ..self.model() }),
                b.unsent() == self.unsent()
        { unimplemented!() }
        // the only operation that puts a request on the wire; consumes the builder
        #[verifier::external_body]
        pub async fn send(self) -> (r: Result<Response, Error>)
            requires
                self.unsent(),                          // [label: request-sent-once]
                net_allowed(),                          // [label: net-allowed]
                self.model().post,                      // [label: request-is-post]
                self.model().url == want_url(),         // [label: request-url]
                self.model().body == Some(want_body()), // [label: request-body]
                self.model().auth == want_auth(),       // [label: request-auth]
            ensures
                r is Ok <==> transport_ok(),
                r is Ok ==> r->Ok_0.model() == the_response(),
        { unimplemented!() }
    }
    impl Response {
        pub uninterp spec fn model(&self) -> RespModel;
        #[verifier::external_body]
        pub fn error_for_status_ref(&self) -> (r: Result<&Response, Error>)
            ensures r is Err <==> 400 <= self.model().status < 600,
                    r is Ok ==> r->Ok_0 == self,
        { unimplemented!() }
        #[verifier::external_body]
        pub fn status(&self) -> (s: u16) ensures s as int == self.model().status { unimplemented!() }
        #[verifier::external_body]
        pub fn error_for_status(self) -> (r: Result<Response, Error>)
            ensures r is Err <==> 400 <= self.model().status < 600,
                    r is Ok ==> r->Ok_0.model() == self.model(),
        { unimplemented!() }
        #[verifier::external_body]
        pub async fn text(self) -> (r: Result<String, Error>)
            requires net_allowed(), // [label: net-allowed]
            ensures r is Ok <==> body_read_ok(),
                    r is Ok ==> r->Ok_0@ == self.model().body,
        { unimplemented!() }
    }
//# section: reqwest-end
}
