// Contract-only stand-in for the parts of `reqwest` that zeep's helper code names (trusted base).
//# section: reqwest-begin
pub mod reqwest {
    use vstd::prelude::*;
//# section: reqwest-error
    #[verifier::external_body]
    pub struct Error { _p: () }
//# section: reqwest-end
}
