// Stand-ins for derive-generated impls that emitted code relies on (trusted base).
//# section: restrictions-default
// `#[derive(Default)] struct Restrictions` of helpers_content.rs: every facet absent.
impl Default for restrictions::Restrictions {
    #[verifier::external_body]
    fn default() -> (r: Self)
        ensures r.min_inclusive is None, r.max_inclusive is None, r.min_exclusive is None, r.max_exclusive is None,
                r.length is None, r.min_length is None, r.max_length is None, r.enumeration is None,
    { unimplemented!() }
}
