// Unit X — C02 (flattening) / C08 (extension): what complex.rs must compute, stated over the roxmltree stand-in.
//# section: field-relation-uninterp
    // "f is the field that Field::try_from_node yields for node n" (fallback when Field::try_from_node is only named)
    pub uninterp spec fn is_field_of(f: Field, n: Node) -> bool;
//# section: field-flags-spec
    // ---- C02: the occurrence flags of a member, from the property ("T when required, Option<T> when optional or a choice branch, Vec<T> when it
    // may repeat"), over the member itself and the sequence / choice / all groups that enclose it up to the type definition
    pub open spec fn is_grp3(n: Node) -> bool { tag(n) == "sequence"@ || tag(n) == "choice"@ || tag(n) == "all"@ }
    // anc(n)[i] is an enclosing group of n: every node between n and it is a group
    pub open spec fn encl(n: Node, i: int) -> bool { 1 <= i < anc(n).len() && forall|j: int| 1 <= j <= i ==> is_grp3(#[trigger] anc(n)[j]) }
    // maxOccurs present and neither "1" nor "0" (a count above one, or "unbounded")
    pub open spec fn may_repeat(g: Node) -> bool { match attr(g, "maxOccurs"@) { Some(v) => v != "1"@ && v != "0"@, None => false } }
    pub open spec fn min0(g: Node) -> bool { attr(g, "minOccurs"@) == Some("0"@) }
    #[verifier::opaque]
    pub open spec fn vec_spec(n: Node) -> bool { may_repeat(n) || exists|i: int| encl(n, i) && may_repeat(#[trigger] anc(n)[i]) }
    #[verifier::opaque]
    pub open spec fn opt_spec(n: Node) -> bool {
        if tag(n) == "attribute"@ { attr(n, "use"@) != Some("required"@) }
        else { min0(n) || exists|i: int| encl(n, i) && (min0(#[trigger] anc(n)[i]) || tag(anc(n)[i]) == "choice"@) }
    }
    pub open spec fn choice_spec(n: Node) -> bool { match parent_of(n) { Some(p) => tag(p) == "choice"@, None => false } }
    // "f is the field of member n": the flags follow the declaration; a named member keeps its XML name.  (xs:any is outside the subset: unconstrained.)
    pub open spec fn is_field_of(f: Field, n: Node) -> bool {
        tag(n) != "any"@ ==> {
            &&& !f.is_any
            &&& f.is_vec == vec_spec(n)
            &&& f.is_optional == opt_spec(n)
            &&& f.is_attribute == (tag(n) == "attribute"@)
            &&& f.is_choice == choice_spec(n)
            &&& (attr(n, "ref"@) is None ==> attr(n, "name"@) == Some(f.xml_name@))
        }
    }
    // the groups collected by `ancestors().skip(1).take_while(is a group)` are exactly the enclosing groups
    pub proof fn lemma_groups(n: Node, groups: Seq<Node>)
        requires
            groups.len() <= anc(n).skip(1).len(),
            forall|i: int| 0 <= i < groups.len() ==> #[trigger] groups[i] == anc(n).skip(1)[i] && is_grp3(groups[i]),
            groups.len() < anc(n).skip(1).len() ==> !is_grp3(anc(n).skip(1)[groups.len() as int]),
        ensures
            forall|i: int| encl(n, i) <==> 1 <= i <= groups.len(),
            forall|i: int| 0 <= i < groups.len() ==> #[trigger] groups[i] == anc(n)[i + 1],
    {
        broadcast use crate::roxmltree::anc_chain;
        let a = anc(n);
        assert forall|i: int| encl(n, i) <==> 1 <= i <= groups.len() by {
            if 1 <= i <= groups.len() {
                assert forall|j: int| 1 <= j <= i implies is_grp3(#[trigger] a[j]) by { assert(groups[j - 1] == a.skip(1)[j - 1]); }
            }
            if encl(n, i) && i > groups.len() {
                assert(is_grp3(a[groups.len() as int + 1]));
                assert(a.skip(1)[groups.len() as int] == a[groups.len() as int + 1]);
            }
        }
        assert forall|i: int| 0 <= i < groups.len() implies #[trigger] groups[i] == a[i + 1] by { assert(groups[i] == a.skip(1)[i]); }
    }
    // from "some collected group has the attribute" to the property's wording over enclosing groups
    pub proof fn lemma_flags(n: Node, groups: Seq<Node>, pv: bool, po: bool, ic: bool)
        requires
            forall|i: int| encl(n, i) <==> 1 <= i <= groups.len(),
            forall|i: int| 0 <= i < groups.len() ==> #[trigger] groups[i] == anc(n)[i + 1],
            pv == (exists|i: int| 0 <= i < groups.len() && may_repeat(#[trigger] groups[i])),
            po == (exists|i: int| 0 <= i < groups.len() && min0(#[trigger] groups[i])),
            ic == (exists|i: int| 0 <= i < groups.len() && tag(#[trigger] groups[i]) == "choice"@),
        ensures
            (may_repeat(n) || pv) == vec_spec(n),
            tag(n) != "attribute"@ ==> (min0(n) || po || ic) == opt_spec(n),
            tag(n) == "attribute"@ ==> opt_spec(n) == (attr(n, "use"@) != Some("required"@)),
    {
        reveal(vec_spec); reveal(opt_spec);
        if pv { let i = choose|i: int| 0 <= i < groups.len() && may_repeat(#[trigger] groups[i]); assert(encl(n, i + 1) && may_repeat(anc(n)[i + 1])); }
        if exists|i: int| encl(n, i) && may_repeat(#[trigger] anc(n)[i]) {
            let i = choose|i: int| encl(n, i) && may_repeat(#[trigger] anc(n)[i]); assert(may_repeat(groups[i - 1]));
        }
        if po { let i = choose|i: int| 0 <= i < groups.len() && min0(#[trigger] groups[i]); assert(encl(n, i + 1) && min0(anc(n)[i + 1])); }
        if ic { let i = choose|i: int| 0 <= i < groups.len() && tag(#[trigger] groups[i]) == "choice"@; assert(encl(n, i + 1) && tag(anc(n)[i + 1]) == "choice"@); }
        if exists|i: int| encl(n, i) && (min0(#[trigger] anc(n)[i]) || tag(anc(n)[i]) == "choice"@) {
            let i = choose|i: int| encl(n, i) && (min0(#[trigger] anc(n)[i]) || tag(anc(n)[i]) == "choice"@);
            assert(groups[i - 1] == anc(n)[i]);
            assert(min0(groups[i - 1]) || tag(groups[i - 1]) == "choice"@);
        }
    }
//# section: flatten-spec
    // ---- spec: the members a content model declares, in document order (written from the property: every element / any /
    // attribute is one member; nested sequence and choice groups are flattened in place; nothing else contributes)
    pub open spec fn is_group(n: Node) -> bool { tag(n) == "sequence"@ || tag(n) == "choice"@ }
    pub open spec fn flat<'a, 'b>(n: Node<'a, 'b>, k: nat) -> Seq<Node<'a, 'b>>
        decreases height(n), k
    {
        if k == 0 { Seq::empty() } else {
            let c = elem_kids(n)[k - 1];
            flat(n, (k - 1) as nat) + (
                if k - 1 < elem_kids(n).len() && height(c) < height(n) {
                    if is_group(c) { flat(c, elem_kids(c).len()) }
                    else if tag(c) == "attributeGroup"@ { Seq::empty() }
                    else { seq![c] }
                } else { Seq::empty() })
        }
    }
    pub open spec fn members<'a, 'b>(n: Node<'a, 'b>) -> Seq<Node<'a, 'b>> { flat(n, elem_kids(n).len()) }
    pub open spec fn appended(old_out: Seq<Field>, new_out: Seq<Field>, ms: Seq<Node>) -> bool {
        new_out.len() == old_out.len() + ms.len()
        && (forall|i: int| 0 <= i < old_out.len() ==> new_out[i] == old_out[i])
        && (forall|i: int| 0 <= i < ms.len() ==> is_field_of(#[trigger] new_out[old_out.len() + i], ms[i]))
    }

    pub broadcast proof fn lemma_appended_trans(a: Seq<Field>, b: Seq<Field>, c: Seq<Field>, m1: Seq<Node>, m2: Seq<Node>)
        requires #[trigger] appended(a, b, m1), #[trigger] appended(b, c, m2)
        ensures appended(a, c, m1 + m2)
    {
        assert forall|i: int| 0 <= i < a.len() implies c[i] == a[i] by { assert(c[i] == b[i]); }
        assert forall|i: int| 0 <= i < (m1 + m2).len() implies is_field_of(#[trigger] c[a.len() + i], (m1 + m2)[i]) by {
            if i < m1.len() { assert(c[a.len() + i] == b[a.len() + i]); assert(is_field_of(b[a.len() + i], m1[i])); }
            else { let j = i - m1.len(); assert(is_field_of(c[b.len() + j], m2[j])); assert(b.len() + j == a.len() + i); }
        }
    }

    pub open spec fn fields_are(fs: Seq<Field>, ms: Seq<Node>) -> bool { appended(Seq::empty(), fs, ms) }
//# section: extension-spec
    pub open spec fn is_ext(n: Node) -> bool { is_elem(n) && tag(n) == "extension"@ }
    // the own content model of an extension: a sequence or a choice
    pub open spec fn is_content_tag(n: Node) -> bool { tag(n) == "sequence"@ || tag(n) == "choice"@ }
    pub open spec fn is_seq_elem(n: Node) -> bool { is_elem(n) && is_content_tag(n) }
    // the extension child of a complexContent node: the first child that is an `extension` element
    pub open spec fn first_ext(n: Node, e: Node) -> bool {
        exists|i: int| 0 <= i < all_kids(n).len() && #[trigger] all_kids(n)[i] == e && is_ext(e)
            && forall|j: int| 0 <= j < i ==> !is_ext(#[trigger] all_kids(n)[j])
    }
    pub open spec fn no_ext(n: Node) -> bool { forall|i: int| 0 <= i < all_kids(n).len() ==> !is_ext(#[trigger] all_kids(n)[i]) }
    pub open spec fn has_seq(e: Node) -> bool { exists|i: int| 0 <= i < all_kids(e).len() && is_seq_elem(#[trigger] all_kids(e)[i]) }
    // what the loop over the extension's children contributes after k children (proof artifact of the loop)
    pub open spec fn ext_own<'a, 'b>(e: Node<'a, 'b>, k: nat) -> Seq<Node<'a, 'b>>
        decreases k
    {
        if k == 0 { Seq::empty() } else {
            let c = elem_kids(e)[k - 1];
            ext_own(e, (k - 1) as nat) + (
                if is_content_tag(c) { members(e) }
                else if !has_seq(e) && tag(c) == "attribute"@ { seq![c] }
                else { Seq::empty() })
        }
    }
    // the members inherited from the base: the fields of the complex type the lookup yields for the QName in `base=`
    pub open spec fn base_fields_of(d: RustDocument, cc: Node, e: Node) -> Option<Seq<Field>> {
        match attr(e, "base"@) {
            None => None,
            Some(q) => match type_lookup(d, cc, local_of(q), crate::stdspec::as_deref_spec(&bound_of_qname(d, q))) {
                None => None,
                Some(b) => match b.rust_type { RustType::Complex(p) => Some(p.fields@), _ => Some(Seq::empty()) },
            },
        }
    }

    // ---- C08, property level: on the extension shapes of the subset the loop's contribution IS the extension's declared members
    pub open spec fn seq_at(e: Node, s: int) -> bool {
        0 <= s < elem_kids(e).len() && is_content_tag(elem_kids(e)[s])
        && forall|j: int| 0 <= j < elem_kids(e).len() && j != s ==> !is_content_tag(#[trigger] elem_kids(e)[j])
    }
    pub open spec fn only_attributes(e: Node) -> bool {
        forall|j: int| 0 <= j < elem_kids(e).len() ==> tag(#[trigger] elem_kids(e)[j]) == "attribute"@ || tag(elem_kids(e)[j]) == "attributeGroup"@
    }
    pub proof fn lemma_has_seq(e: Node)
        ensures has_seq(e) <==> exists|j: int| 0 <= j < elem_kids(e).len() && is_content_tag(#[trigger] elem_kids(e)[j])
    {
        broadcast use {crate::roxmltree::kid_lower, crate::roxmltree::elem_kid_is_kid, crate::roxmltree::kid_elem_is_elem_kid};
        if has_seq(e) {
            let i = choose|i: int| 0 <= i < all_kids(e).len() && is_seq_elem(#[trigger] all_kids(e)[i]);
            assert(elem_kids(e).contains(all_kids(e)[i]));
            let j = choose|j: int| 0 <= j < elem_kids(e).len() && elem_kids(e)[j] == all_kids(e)[i];
            assert(is_content_tag(elem_kids(e)[j]));
        }
        if exists|j: int| 0 <= j < elem_kids(e).len() && is_content_tag(#[trigger] elem_kids(e)[j]) {
            let j = choose|j: int| 0 <= j < elem_kids(e).len() && is_content_tag(#[trigger] elem_kids(e)[j]);
            assert(all_kids(e).contains(elem_kids(e)[j]));
            let i = choose|i: int| 0 <= i < all_kids(e).len() && all_kids(e)[i] == elem_kids(e)[j];
            assert(is_elem(elem_kids(e)[j]));
            assert(is_seq_elem(all_kids(e)[i]));
        }
    }
    pub proof fn lemma_ext_own_with_sequence(e: Node, s: int, k: nat)
        requires seq_at(e, s), k <= elem_kids(e).len()
        ensures ext_own(e, k) =~= (if k <= s { Seq::<Node>::empty() } else { members(e) })
        decreases k
    {
        reveal_strlit("sequence"); reveal_strlit("attribute"); reveal_strlit("choice");
        lemma_has_seq(e);
        if k > 0 {
            lemma_ext_own_with_sequence(e, s, (k - 1) as nat);
            assert(has_seq(e));
            if k - 1 != s { assert(!is_content_tag(elem_kids(e)[k - 1])); }
        }
    }
    pub proof fn lemma_ext_own_attributes_only(e: Node, k: nat)
        requires only_attributes(e), k <= elem_kids(e).len()
        ensures ext_own(e, k) =~= flat(e, k)
        decreases k
    {
        broadcast use crate::roxmltree::kid_lower;
        reveal_strlit("sequence"); reveal_strlit("attribute"); reveal_strlit("attributeGroup"); reveal_strlit("choice");
        lemma_has_seq(e);
        if k > 0 {
            lemma_ext_own_attributes_only(e, (k - 1) as nat);
            let c = elem_kids(e)[k - 1];
            assert(tag(c) == "attribute"@ || tag(c) == "attributeGroup"@);
            assert(!has_seq(e)) by {
                if has_seq(e) { let j = choose|j: int| 0 <= j < elem_kids(e).len() && is_content_tag(#[trigger] elem_kids(e)[j]); assert(tag(elem_kids(e)[j]) == "attribute"@ || tag(elem_kids(e)[j]) == "attributeGroup"@); }
            }
        }
    }
    // the extension shapes of the subset: one sequence or choice (with anything beside it), or attributes only
    pub open spec fn ext_simple(e: Node) -> bool { (exists|s: int| seq_at(e, s)) || only_attributes(e) }
    pub proof fn lemma_ext_own_is_members(e: Node)
        requires ext_simple(e)
        ensures ext_own(e, elem_kids(e).len()) =~= members(e)
    {
        if exists|s: int| seq_at(e, s) {
            let s = choose|s: int| seq_at(e, s);
            lemma_ext_own_with_sequence(e, s, elem_kids(e).len());
        } else {
            lemma_ext_own_attributes_only(e, elem_kids(e).len());
        }
    }
    pub open spec fn no_seq_kid(n: Node) -> bool { forall|i: int| 0 <= i < elem_kids(n).len() ==> tag(#[trigger] elem_kids(n)[i]) != "sequence"@ }
    // contribution of `sequence` children placed directly under complexContent (outside the XSD grammar; proof artifact of the loop)
    pub open spec fn cc_own<'a, 'b>(n: Node<'a, 'b>, k: nat) -> Seq<Node<'a, 'b>>
        decreases k
    {
        if k == 0 { Seq::empty() } else {
            cc_own(n, (k - 1) as nat) + (if tag(elem_kids(n)[k - 1]) == "sequence"@ { members(n) } else { Seq::empty() })
        }
    }
    pub proof fn lemma_cc_own_empty(n: Node, k: nat)
        requires no_seq_kid(n), k <= elem_kids(n).len()
        ensures cc_own(n, k) =~= Seq::<Node>::empty()
        decreases k
    {
        if k > 0 { lemma_cc_own_empty(n, (k - 1) as nat); assert(tag(elem_kids(n)[k - 1]) != "sequence"@); }
    }
    // C08: the members of a type derived by extension are the members of its base, in the base's order, followed by the
    // members the extension declares
    pub open spec fn cc_ok(d: RustDocument, cc: Node, fs: Seq<Field>) -> bool {
        no_seq_kid(cc) ==> {
            &&& (no_ext(cc) ==> fs.len() == 0)
            &&& (forall|e: Node| first_ext(cc, e) ==> base_fields_of(d, cc, e) is Some
                    && appended(base_fields_of(d, cc, e)->0, fs, ext_own(e, elem_kids(e).len())))
            // the property's wording, on the extension shapes of the subset: base members first, then the members the extension declares
            &&& (forall|e: Node| first_ext(cc, e) && ext_simple(e) ==> appended(base_fields_of(d, cc, e)->0, fs, members(e)))
        }
    }

//# section: complex-type-spec
    // ---- ComplexProps::try_from_node: the content child read LAST (sequence or complexContent) supplies the fields, the attribute
    // children after it are appended in order
    pub open spec fn is_content(c: Node) -> bool { tag(c) == "sequence"@ || tag(c) == "complexContent"@ }
    pub open spec fn last_content(n: Node, k: nat) -> int
        decreases k
    {
        if k == 0 { -1 } else if is_content(elem_kids(n)[k - 1]) { k - 1 } else { last_content(n, (k - 1) as nat) }
    }
    pub open spec fn attrs_between<'a, 'b>(n: Node<'a, 'b>, lo: int, k: nat) -> Seq<Node<'a, 'b>>
        decreases k
    {
        if k <= lo || k == 0 { Seq::empty() } else {
            attrs_between(n, lo, (k - 1) as nat) + (if tag(elem_kids(n)[k - 1]) == "attribute"@ { seq![elem_kids(n)[k - 1]] } else { Seq::empty() })
        }
    }
    pub open spec fn content_ok(d: RustDocument, c: Node, fs: Seq<Field>) -> bool {
        &&& (tag(c) == "sequence"@ ==> fields_are(fs, members(c)))
        &&& (tag(c) == "complexContent"@ ==> cc_ok(d, c, fs))
    }
    // C02/C08 at the level of one complex type: fields == (fields of the content child) ++ (one field per attribute declared after it)
    pub open spec fn ct_ok(n: Node, fs: Seq<Field>) -> bool {
        let k = elem_kids(n).len();
        let j = last_content(n, k);
        let at = attrs_between(n, j + 1, k);
        &&& fs.len() >= at.len()
        &&& (forall|i: int| 0 <= i < at.len() ==> is_field_of(#[trigger] fs[fs.len() - at.len() + i], at[i]))
        &&& (j < 0 ==> fs.len() == at.len())
        &&& (j >= 0 ==> exists|d: RustDocument| #[trigger] content_ok(d, elem_kids(n)[j], fs.take(fs.len() - at.len())))
    }

//# section: facet-spec
    // ---- C07 (generator half): a facet of a restriction is its attribute of that name or, failing that, the `value` of the first child element of that name
    pub open spec fn opt_view(o: Option<String>) -> Option<Seq<char>> { match o { Some(v) => Some(v@), None => None } }
    pub open spec fn first_named_kid(n: Node, name: Seq<char>, k: Node) -> bool {
        exists|i: int| 0 <= i < all_kids(n).len() && #[trigger] all_kids(n)[i] == k && tag(k) == name
            && forall|j: int| 0 <= j < i ==> tag(#[trigger] all_kids(n)[j]) != name
    }
    pub open spec fn no_named_kid(n: Node, name: Seq<char>) -> bool { forall|i: int| 0 <= i < all_kids(n).len() ==> tag(#[trigger] all_kids(n)[i]) != name }
    // the facet text is compared up to surrounding white space (XSD collapses white space in facet literals; the writer trims before parsing)
    pub open spec fn same_facet(a: Option<Seq<char>>, b: Option<Seq<char>>) -> bool {
        match (a, b) { (Some(x), Some(y)) => crate::stdspec::trim_spec(x) == crate::stdspec::trim_spec(y), (None, None) => true, _ => false }
    }
    pub open spec fn facet_is(n: Node, name: Seq<char>, old_v: Option<Seq<char>>, new_v: Option<Seq<char>>) -> bool {
        match attr(n, name) {
            Some(v) => same_facet(new_v, Some(v)),
            None => (no_named_kid(n, name) ==> same_facet(new_v, old_v))
                && (forall|k: Node| first_named_kid(n, name, k) ==> same_facet(new_v, match attr(k, "value"@) { Some(v) => Some(v), None => old_v })),
        }
    }
//# section: node-spec
    pub closed spec fn current_tns(d: RustDocument) -> Option<Rc<Namespace>> { d.current_target_namespace }
    // C02: one component per top-level schema child, of the kind its tag says, in the namespace that is current when it has been read
    // (that the Complex payload is what ComplexProps::try_from_node returned is not stated: `.into()` into a Box has no contract in this vstd)
    pub open spec fn node_ok(n: Node, r: RustNode) -> bool {
        &&& ((tag(n) == "complexType"@ || tag(n) == "group"@) ==> r.rust_type is Complex)
        &&& (tag(n) == "simpleType"@ ==> r.rust_type is Simple)
        &&& (tag(n) == "element"@ ==> r.rust_type is Element)
        &&& (!(tag(n) == "complexType"@ || tag(n) == "group"@ || tag(n) == "simpleType"@ || tag(n) == "element"@) ==> r.rust_type is Ignore)
    }
//# section: simple-type-spec
    // C07 (generator half): the facets of a simple type are those its `restriction` child declares
    pub open spec fn is_restr(n: Node) -> bool { is_elem(n) && tag(n) == "restriction"@ }
    pub open spec fn first_restriction(n: Node, r: Node) -> bool {
        exists|i: int| 0 <= i < all_kids(n).len() && #[trigger] all_kids(n)[i] == r && is_restr(r)
            && forall|j: int| 0 <= j < i ==> !is_restr(#[trigger] all_kids(n)[j])
    }
    pub open spec fn facets_of(r: Node, x: Restrictions) -> bool {
        &&& facet_is(r, "minInclusive"@, None, opt_view(x.min_inclusive))
        &&& facet_is(r, "maxInclusive"@, None, opt_view(x.max_inclusive))
        &&& facet_is(r, "minExclusive"@, None, opt_view(x.min_exclusive))
        &&& facet_is(r, "maxExclusive"@, None, opt_view(x.max_exclusive))
        &&& facet_is(r, "totalDigits"@, None, opt_view(x.total_digits))
        &&& facet_is(r, "fractionDigits"@, None, opt_view(x.fraction_digits))
        &&& facet_is(r, "length"@, None, opt_view(x.length))
        &&& facet_is(r, "minLength"@, None, opt_view(x.min_length))
        &&& facet_is(r, "maxLength"@, None, opt_view(x.max_length))
        &&& facet_is(r, "whiteSpace"@, None, opt_view(x.white_space))
        &&& facet_is(r, "pattern"@, None, opt_view(x.pattern))
    }
    pub open spec fn simple_ok(n: Node, p: SimpleProps) -> bool {
        forall|r: Node| first_restriction(n, r) ==> p.restrictions is Some && facets_of(r, p.restrictions->0) && attr(n, "name"@) == Some(p.xml_name@)
    }
//# section: element-spec
    // C02: a global element with a type attribute is an alias of that type; an anonymous-typed global element carries the members of its complexType child
    pub open spec fn first_ct(n: Node, c: Node) -> bool {
        exists|i: int| 0 <= i < elem_kids(n).len() && #[trigger] elem_kids(n)[i] == c && tag(c) == "complexType"@
            && forall|j: int| 0 <= j < i ==> tag(#[trigger] elem_kids(n)[j]) != "complexType"@
    }
    pub open spec fn element_ok(n: Node, p: ElementProps) -> bool {
        &&& attr(n, "name"@) == Some(p.xml_name@)
        &&& (attr(n, "type"@) is Some ==> p.element_type is RustType)
        &&& (attr(n, "type"@) is None ==> forall|c: Node| first_ct(n, c) ==> p.element_type is ComplexType && ct_ok(c, p.element_type->ComplexType_0.fields@))
    }
