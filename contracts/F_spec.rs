// C09: a QName "prefix:Name" denotes the component Name in the namespace bound to prefix.
//# section: qname-spec
    // the prefix and the local part of a QName, defined through the first ':' (split_once_spec is tied to the text by axiom split_once_char)
    pub open spec fn prefix_of(s: Seq<char>) -> Option<Seq<char>> {
        match split_once_spec::<char>(s, ':') { Some((p, n)) => Some(p), None => None }
    }
    pub open spec fn local_of(s: Seq<char>) -> Seq<char> {
        match split_once_spec::<char>(s, ':') { Some((p, n)) => n, None => s }
    }
    // what the definition means, from the property statement: "prefix:Name" with a colon-free prefix splits into exactly (prefix, Name),
    // and a string without ':' is all local name
    pub proof fn lemma_qname_splits(p: Seq<char>, n: Seq<char>)
        requires !p.contains(':')
        ensures prefix_of(p + seq![':'] + n) == Some(p), local_of(p + seq![':'] + n) == n
    {
        let s = p + seq![':'] + n;
        crate::ax::split_once_char(s, ':');
        assert(s[p.len() as int] == ':');
        assert(s.contains(':'));
        let a = (split_once_spec::<char>(s, ':')->0).0;
        let b = (split_once_spec::<char>(s, ':')->0).1;
        assert(s == a + seq![':'] + b);
        if a.len() < p.len() {
            assert(s[a.len() as int] == ':');
            assert(p[a.len() as int] == s[a.len() as int]);
            assert(p.contains(':'));
        }
        if a.len() > p.len() {
            assert(a[p.len() as int] == s[p.len() as int]);
            assert(a.contains(':'));
        }
        assert(a.len() == p.len());
        assert(a =~= p) by {
            assert forall|i: int| 0 <= i < a.len() implies a[i] == p[i] by { assert(a[i] == s[i]); assert(p[i] == s[i]); }
        }
        assert(b =~= n) by {
            assert(b.len() == n.len());
            assert forall|i: int| 0 <= i < b.len() implies b[i] == n[i] by {
                assert(b[i] == s[a.len() + 1 + i]);
                assert(n[i] == s[p.len() + 1 + i]);
            }
        }
    }
    pub proof fn lemma_no_colon_is_local(s: Seq<char>)
        requires !s.contains(':')
        ensures prefix_of(s) is None, local_of(s) == s
    {
        crate::ax::split_once_char(s, ':');
    }
    // the namespace entry a prefix is bound to in this document
    pub closed spec fn bound_ns(d: RustDocument, prefix: Seq<char>) -> Option<Rc<Namespace>> {
        if d.namespace_lookup@.contains_key(string_of(prefix)) { Some(d.namespace_lookup@[string_of(prefix)]) } else { None }
    }
    pub open spec fn bound_of_qname(d: RustDocument, qname: Seq<char>) -> Option<Rc<Namespace>> {
        match prefix_of(qname) { Some(p) => bound_ns(d, p), None => None }
    }
//# section: lookup-spec
    // C09: a reference (Name, namespace bound to the prefix) denotes the global component called Name in THAT namespace; where a type is
    // wanted (base of an extension) a global element of the same name is a different component
    pub open spec fn type_name(t: RustType) -> Option<Seq<char>> {
        match t { RustType::Complex(p) => Some(p.xml_name@), RustType::Simple(p) => Some(p.xml_name@), RustType::Element(p) => Some(p.xml_name@), RustType::Ignore => None }
    }
    pub open spec fn ns_opt_same(a: Option<Rc<Namespace>>, b: Option<&Namespace>) -> bool {
        match (a, b) { (Some(x), Some(y)) => ns_same(*x, *y), (None, None) => true, _ => false }
    }
    pub open spec fn denotes(n: RustNode, name: Seq<char>, ns: Option<&Namespace>, types_only: bool) -> bool {
        type_name(n.rust_type) == Some(name) && ns_opt_same(n.in_namespace, ns) && !(types_only && n.rust_type is Element)
    }
    pub closed spec fn table_has(d: RustDocument, name: Seq<char>, ns: Option<&Namespace>, types_only: bool) -> bool {
        exists|i: int| 0 <= i < d.nodes@.len() && denotes(*#[trigger] d.nodes@[i], name, ns, types_only)
    }
