// Unit X — declarations of the callees of complex.rs that are not verified in this unit (trusted chunks).
//# section: field-try-from-node
    // Field::try_from_node is a callee here: `is_field_of(f, n)` is an UNINTERPRETED relation ("f is what Field::try_from_node yields for n"),
    // so this declaration assumes nothing about the function beyond being called with that node.
    impl<'n> TryFromNode<'n> for Field {
        type Error = WriterError;
        #[verifier::external_body]
        fn try_from_node(node: Node<'n, 'n>, doc: &mut RustDocument) -> (res: WriterResult<Self>)
            ensures res is Ok ==> is_field_of(res->Ok_0, node)
        { unimplemented!() }
    }
//# section: callees
    // callees that are declared only (no contract: their results are arbitrary here)
    #[verifier::external_body]
    fn parse_comment<'n>(node: Node<'n, 'n>) -> Option<String> { unimplemented!() }
    #[verifier::external_body]
    pub fn collect_namespaces_on_node<'n>(node: Node<'n, 'n>, doc: &mut RustDocument) { unimplemented!() }
    impl WriterError {
        #[verifier::external_body]
        pub fn attribute_missing(node: &Node, attribute: &str) -> Self { unimplemented!() }
    }
    // imported contract (proved in unit F, C09): the QName of the base splits into local name and the namespace bound to its prefix
    #[verifier::external_body]
    pub fn resolve_type<'n>(node_type: &'n str, doc: &RustDocument) -> (res: (&'n str, Option<Rc<Namespace>>))
        ensures res.0@ == local_of(node_type@), res.1 == bound_of_qname(*doc, node_type@)
    { unimplemented!() }
    // `type_lookup(d, start, name, ns)`: the component the document's type lookup yields for (start node, local name, namespace).
    // ASSUMED: find_type_by_xml_name is a function of its arguments; WHAT it finds is the subject of C09's checks, not of this unit.
    pub uninterp spec fn type_lookup(d: RustDocument, start: Node, name: Seq<char>, ns: Option<&Namespace>) -> Option<Rc<RustNode>>;
    impl RustDocument {
        #[verifier::external_body]
        pub fn find_type_by_xml_name<'n>(&mut self, start_node: &Node<'n, 'n>, xml_name: &str, namespace: Option<&Namespace>) -> (res: Option<Rc<RustNode>>)
            ensures res == type_lookup(*old(self), *start_node, xml_name@, namespace)
        { unimplemented!() }
    }
//# section: field-clone
    // `#[derive(Clone)] struct Field` (dropped with the attribute line): a clone is an equal value
    impl Clone for Field {
        #[verifier::external_body]
        fn clone(&self) -> (r: Self) ensures r == *self { unimplemented!() }
    }
//# section: field-callees
    // callees of Field::try_from_node that are declared only (no contract here; the namespace table is unit D, lookups are C09)
    impl RustDocument {
        #[verifier::external_body]
        pub fn switch_to_target_namespace(&mut self, namespace: &str) { unimplemented!() }
        #[verifier::external_body]
        pub fn find_namespace_by_abbreviation(&self, abbreviation: &str) -> (res: Option<&Rc<Namespace>>) { unimplemented!() }
        #[verifier::external_body]
        pub fn find_node_by_xml_name<'n>(&mut self, start_node: &Node<'n, 'n>, xml_name: &str, namespace: Option<&Namespace>) -> (res: Option<Rc<RustNode>>) { unimplemented!() }
    }
    impl RustNode {
        #[verifier::external_body]
        pub fn xml_name(&self) -> Option<&str> { unimplemented!() }
    }
    #[verifier::external_body]
    fn split_type(node_type: &str) -> (res: (&str, Option<&str>)) { unimplemented!() }
    #[verifier::external_body]
    pub fn as_rust_type(node_type: &str, doc: &RustDocument) -> RustFieldType { unimplemented!() }
    #[verifier::external_body]
    pub fn rename_keywords(field_name: &str) -> (res: &str) { unimplemented!() }
//# section: lookup-callees
    // the tree-search fallback for forward references is declared only (roxmltree descendants + the whole reader): NO contract, its result is arbitrary here
    #[verifier::external_body]
    fn try_to_find_node_by_xml_name_in_xml_doc<'n>(start_node: &'n Node<'n, 'n>, xml_name: &str, namespace: Option<&Namespace>, types_only: bool, doc: &mut RustDocument) -> WriterResult<RustNode> { unimplemented!() }
//# section: restrictions-default
    // `#[derive(Default)] struct Restrictions` (structures/restrictions.rs; dropped with the attribute line): every facet absent
    impl Default for Restrictions {
        #[verifier::external_body]
        fn default() -> (r: Self)
            ensures r.min_inclusive is None, r.max_inclusive is None, r.min_exclusive is None, r.max_exclusive is None, r.total_digits is None,
                r.fraction_digits is None, r.length is None, r.min_length is None, r.max_length is None, r.enumeration is None, r.white_space is None,
                r.pattern is None, r.acceptable_union_types is None, r.acceptable_list_type is None
        { unimplemented!() }
    }
//# section: node-callees
    // the other readers RustNode::try_from_node dispatches to are declared only (no contract: their results are arbitrary here)
    impl<'n> TryFromNode<'n> for SimpleProps {
        type Error = WriterError;
        #[verifier::external_body]
        fn try_from_node(node: Node<'n, 'n>, doc: &mut RustDocument) -> (res: WriterResult<Self>) { unimplemented!() }
    }
//# section: simple-callees
    // callees of SimpleProps::try_from_node that are declared only (list / union types are outside the subset; as_rust_type is unit F)
    #[verifier::external_body]
    fn parse_comment<'n>(node: Node<'n, 'n>) -> Option<String> { unimplemented!() }
    #[verifier::external_body]
    pub fn collect_namespaces_on_node<'n>(node: Node<'n, 'n>, doc: &mut RustDocument) { unimplemented!() }
    impl WriterError {
        #[verifier::external_body]
        pub fn attribute_missing(node: &Node, attribute: &str) -> Self { unimplemented!() }
    }
    #[verifier::external_body]
    pub fn as_rust_type(node_type: &str, doc: &RustDocument) -> RustFieldType { unimplemented!() }
    #[verifier::external_body]
    fn build_simple_list_type<'n>(doc: &mut RustDocument, xml_name: String, list: Node<'n, 'n>, comment: Option<String>) -> WriterResult<SimpleProps> { unimplemented!() }
    #[verifier::external_body]
    fn build_simple_union_type<'n>(doc: &mut RustDocument, xml_name: String, list: Node<'n, 'n>, comment: Option<String>) -> WriterResult<SimpleProps> { unimplemented!() }
