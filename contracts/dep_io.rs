// std::io::Write with a ghost history of the sink (trusted base).
//   failed():   some write on this sink has returned an error
//   complete(): every write that was accepted consumed its whole buffer (nothing silently dropped)
// `write!` / `writeln!` expand to `write_fmt`, whose std contract is "all bytes written, or an error"
// (it loops over short writes with write_all).
//# section: io-write-ghost
pub mod iospec {
    use vstd::prelude::*;
    #[verifier::external_type_specification]
    #[verifier::external_body]
    pub struct ExIoError(std::io::Error);

    #[verifier::external_trait_specification]
    #[verifier::external_trait_extension(WriteSpec via WriteSpecImpl)]
    pub trait ExWrite {
        type ExternalTraitSpecificationFor: std::io::Write;
        spec fn failed(&self) -> bool;
        spec fn complete(&self) -> bool;
        fn write_fmt(&mut self, args: core::fmt::Arguments<'_>) -> (r: std::io::Result<()>)
            ensures
                r is Ok ==> (*final(self)).failed() == (*old(self)).failed() && (*final(self)).complete() == (*old(self)).complete(),
                r is Err ==> (*final(self)).failed();
        // a single `write` may accept only a prefix of the buffer: unless the count is checked, bytes are lost
        fn write(&mut self, buf: &[u8]) -> (r: std::io::Result<usize>)
            ensures
                r is Err ==> (*final(self)).failed(),
                r is Ok ==> (*final(self)).failed() == (*old(self)).failed() && r->Ok_0 <= buf@.len(),
                r is Ok && r->Ok_0 == buf@.len() ==> (*final(self)).complete() == (*old(self)).complete(),
                r is Ok && r->Ok_0 < buf@.len() ==> !(*final(self)).complete();
        fn write_all(&mut self, buf: &[u8]) -> (r: std::io::Result<()>)
            ensures
                r is Ok ==> (*final(self)).failed() == (*old(self)).failed() && (*final(self)).complete() == (*old(self)).complete(),
                r is Err ==> (*final(self)).failed();
        fn flush(&mut self) -> (r: std::io::Result<()>)
            ensures
                r is Ok ==> (*final(self)).failed() == (*old(self)).failed() && (*final(self)).complete() == (*old(self)).complete(),
                r is Err ==> (*final(self)).failed();
    }
    #[verifier::external_type_specification]
    pub struct ExErrorKind(std::io::ErrorKind);
    // TRUSTED: the kind of an io::Error is some ErrorKind; comparing kinds has no side effect
    pub assume_specification [std::io::Error::kind] (e: &std::io::Error) -> (k: std::io::ErrorKind);
    pub assume_specification [<std::io::ErrorKind as PartialEq>::eq] (a: &std::io::ErrorKind, b: &std::io::ErrorKind) -> (r: bool);
}
//# section: fmt-ghost
// core::fmt::Formatter with a ghost "a write into this formatter has failed" flag: a user Display impl must not return Ok after
// one of its pieces failed, because io::Write::write_fmt reports the sink's error only when the formatting returns Err.
pub mod fmtspec {
    use vstd::prelude::*;
    pub uninterp spec fn fmt_failed(f: &core::fmt::Formatter<'_>) -> bool;
    // TRUSTED: Formatter::write_fmt / write_str return Err exactly when a write into the underlying sink failed (std).
    pub assume_specification<'a> [core::fmt::Formatter::<'a>::write_fmt] (f: &mut core::fmt::Formatter<'a>, args: core::fmt::Arguments<'_>) -> (r: core::fmt::Result)
        ensures r is Ok ==> fmt_failed(final(f)) == fmt_failed(old(f)), r is Err ==> fmt_failed(final(f));
    pub assume_specification<'a> [core::fmt::Formatter::<'a>::write_str] (f: &mut core::fmt::Formatter<'a>, s: &str) -> (r: core::fmt::Result)
        ensures r is Ok ==> fmt_failed(final(f)) == fmt_failed(old(f)), r is Err ==> fmt_failed(final(f));
}
