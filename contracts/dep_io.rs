// std::io::Write with a ghost history of the sink (trusted base).
//   failed():   some write on this sink has returned an error
//   complete(): every write that was accepted consumed its whole buffer (nothing silently dropped)
// `write!` / `writeln!` expand to `write_fmt`, whose std contract is "all bytes written, or an error"
// (it loops over short writes with write_all).
//# section: io-write-ghost
pub mod iospec {
    use vstd::prelude::*;
    #[verifier::external_type_specification]
    #[verifier::external_body]
    pub struct ExIoError(std::io::Error);

    #[verifier::external_trait_specification]
    #[verifier::external_trait_extension(WriteSpec via WriteSpecImpl)]
    pub trait ExWrite {
        type ExternalTraitSpecificationFor: std::io::Write;
        spec fn failed(&self) -> bool;
        spec fn complete(&self) -> bool;
        fn write_fmt(&mut self, args: core::fmt::Arguments<'_>) -> (r: std::io::Result<()>)
            ensures
                r is Ok ==> (*final(self)).failed() == (*old(self)).failed() && (*final(self)).complete() == (*old(self)).complete(),
                r is Err ==> (*final(self)).failed();
    }
}
