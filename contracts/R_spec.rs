// Specification of the restriction check (C06), written from the property statement
// ("v >= minInclusive, v <= maxInclusive, v > minExclusive, v < maxExclusive, character count equal
// to length and within minLength..maxLength, membership in the enumeration"), not from the code.
//# section: restrictions-spec
    pub open spec fn num_ok(v: int, r: Restrictions) -> bool {
        &&& (r.min_inclusive is Some ==> v >= r.min_inclusive->0)
        &&& (r.max_inclusive is Some ==> v <= r.max_inclusive->0)
        &&& (r.min_exclusive is Some ==> v > r.min_exclusive->0)
        &&& (r.max_exclusive is Some ==> v < r.max_exclusive->0)
    }
    pub open spec fn has_num_facet(r: Restrictions) -> bool {
        r.min_inclusive is Some || r.max_inclusive is Some || r.min_exclusive is Some || r.max_exclusive is Some
    }
    pub open spec fn no_str_facets(r: Restrictions) -> bool {
        r.length is None && r.min_length is None && r.max_length is None && r.enumeration is None
    }
    pub open spec fn in_enum(s: Seq<char>, e: Vec<String>) -> bool {
        exists|i: int| 0 <= i < e@.len() && (#[trigger] e@[i])@ == s
    }
    pub open spec fn len_ok(n: int, r: Restrictions) -> bool {
        &&& (r.min_length is Some ==> n >= r.min_length->0)
        &&& (r.max_length is Some ==> n <= r.max_length->0)
        &&& (r.length is Some ==> n == r.length->0)
    }
    // a String carries either text (length / enumeration facets) or, when the schema type is
    // numeric, the decimal lexical form of an integer (numeric facets apply to the number denoted)
    pub open spec fn str_ok(s: Seq<char>, r: Restrictions) -> bool {
        &&& len_ok(s.len() as int, r)
        &&& (r.enumeration is Some ==> in_enum(s, r.enumeration->0))
        &&& (has_num_facet(r) ==> is_numeral(s) && num_ok(int_of(s), r))
    }
    // numerals that the String carrier can compare at all (it parses into the widest primitive, i128;
    // numerals beyond that are the known finding `String/full-range`)
    pub open spec fn str_in_range(s: Seq<char>, r: Restrictions) -> bool {
        (has_num_facet(r) && is_numeral(s)) ==> i128::MIN <= int_of(s) <= i128::MAX
    }
//# section: trait-spec-members
        // `dom`: the (value, restriction set) pairs for which the property defines an answer for this
        // carrier; `sat`: the value satisfies every facet of the set (XSD semantics).
        spec fn dom(&self, r: Option<Rc<Restrictions>>) -> bool;
        spec fn sat(&self, r: Option<Rc<Restrictions>>) -> bool;
//# section: vec-spec-members
        open spec fn dom(&self, r: Option<Rc<Restrictions>>) -> bool {
            forall|i: int| 0 <= i < self@.len() ==> (#[trigger] self@[i]).dom(r)
        }
        open spec fn sat(&self, r: Option<Rc<Restrictions>>) -> bool {
            forall|i: int| 0 <= i < self@.len() ==> (#[trigger] self@[i]).sat(r)
        }
//# section: option-spec-members
        open spec fn dom(&self, r: Option<Rc<Restrictions>>) -> bool { self is Some ==> self->0.dom(r) }
        open spec fn sat(&self, r: Option<Rc<Restrictions>>) -> bool { self is Some ==> self->0.sat(r) }
//# section: int-spec-members
        // length / enumeration facets on an integer carrier are outside the property's domain
        // (XSD defines no character count for numbers); with no restriction set everything is accepted
        open spec fn dom(&self, r: Option<Rc<Restrictions>>) -> bool { r is Some ==> no_str_facets(*r->0) }
        open spec fn sat(&self, r: Option<Rc<Restrictions>>) -> bool { r is Some ==> num_ok(*self as int, *r->0) }
//# section: never-rejected-spec-members
        open spec fn dom(&self, r: Option<Rc<Restrictions>>) -> bool { true }
        open spec fn sat(&self, r: Option<Rc<Restrictions>>) -> bool { true }
//# section: string-spec-members
        open spec fn dom(&self, r: Option<Rc<Restrictions>>) -> bool { r is Some ==> str_in_range(self@, *r->0) }
        open spec fn sat(&self, r: Option<Rc<Restrictions>>) -> bool { r is Some ==> str_ok(self@, *r->0) }
