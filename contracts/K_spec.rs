// C14 (keyword half): the Rust reference's keyword lists for edition 2024.
//# section: keywords-spec
    // strict + reserved keywords: never usable as a plain identifier
    pub open spec fn must_escape(s: Seq<char>) -> bool {
        s == "as"@ || s == "async"@ || s == "await"@ || s == "break"@ || s == "const"@ || s == "continue"@ || s == "crate"@ || s == "dyn"@ || s == "else"@ || s == "enum"@ || s == "extern"@ || s == "false"@ || s == "fn"@ || s == "for"@ || s == "if"@ || s == "impl"@ || s == "in"@ || s == "let"@ || s == "loop"@ || s == "match"@ || s == "mod"@ || s == "move"@ || s == "mut"@ || s == "pub"@ || s == "ref"@ || s == "return"@ || s == "Self"@ || s == "self"@ || s == "static"@ || s == "struct"@ || s == "super"@ || s == "trait"@ || s == "true"@ || s == "type"@ || s == "unsafe"@ || s == "use"@ || s == "where"@ || s == "while"@ || s == "abstract"@ || s == "become"@ || s == "box"@ || s == "do"@ || s == "final"@ || s == "macro"@ || s == "override"@ || s == "priv"@ || s == "try"@ || s == "typeof"@ || s == "unsized"@ || s == "virtual"@ || s == "yield"@ || s == "gen"@
    }
    // weak keywords: legal as identifiers, escaping them is harmless
    pub open spec fn weak_kw(s: Seq<char>) -> bool {
        s == "macro_rules"@ || s == "union"@ || s == "safe"@ || s == "raw"@
    }
    // keywords that cannot be raw identifiers (`r#self` etc. do not lex as identifiers)
    pub open spec fn not_raw_able(s: Seq<char>) -> bool {
        s == "crate"@ || s == "self"@ || s == "Self"@ || s == "super"@
    }
//# section: ident-spec
    // C14 (injection half, sanitisers): what a legal identifier made of ASCII is (Rust reference: XID_Start XID_Continue* | _ XID_Continue+,
    // restricted to ASCII; `_` alone is not an identifier; a strict / reserved keyword only in raw form, and not all of them may be raw).
    pub open spec fn ident_char(c: char) -> bool { ascii_alnum(c) || c == '_' }
    pub open spec fn ident_only(s: Seq<char>) -> bool { forall|i: int| 0 <= i < s.len() ==> ident_char(#[trigger] s[i]) }
    pub open spec fn identish(s: Seq<char>) -> bool { s.len() > 0 && ident_only(s) && !ascii_digit(s[0]) && s != "_"@ }
    pub open spec fn legal_ident(s: Seq<char>) -> bool {
        (identish(s) && !must_escape(s))
        || exists|k: Seq<char>| s =~= "r#"@ + k && #[trigger] identish(k) && !not_raw_able(k)
    }
    // how a name may be respelled: the raw form (where that is legal) or another plain identifier
    pub open spec fn respelled_ok(f: Seq<char>, r: Seq<char>) -> bool {
        (r =~= "r#"@ + f && !not_raw_able(f)) || (identish(r) && !must_escape(r))
    }
