// C14 (keyword half): the Rust reference's keyword lists for edition 2024.
//# section: keywords-spec
    // strict + reserved keywords: never usable as a plain identifier
    pub open spec fn must_escape(s: Seq<char>) -> bool {
        s == "as"@ || s == "async"@ || s == "await"@ || s == "break"@ || s == "const"@ || s == "continue"@ || s == "crate"@ || s == "dyn"@ || s == "else"@ || s == "enum"@ || s == "extern"@ || s == "false"@ || s == "fn"@ || s == "for"@ || s == "if"@ || s == "impl"@ || s == "in"@ || s == "let"@ || s == "loop"@ || s == "match"@ || s == "mod"@ || s == "move"@ || s == "mut"@ || s == "pub"@ || s == "ref"@ || s == "return"@ || s == "Self"@ || s == "self"@ || s == "static"@ || s == "struct"@ || s == "super"@ || s == "trait"@ || s == "true"@ || s == "type"@ || s == "unsafe"@ || s == "use"@ || s == "where"@ || s == "while"@ || s == "abstract"@ || s == "become"@ || s == "box"@ || s == "do"@ || s == "final"@ || s == "macro"@ || s == "override"@ || s == "priv"@ || s == "try"@ || s == "typeof"@ || s == "unsized"@ || s == "virtual"@ || s == "yield"@ || s == "gen"@
    }
    // weak keywords: legal as identifiers, escaping them is harmless
    pub open spec fn weak_kw(s: Seq<char>) -> bool {
        s == "macro_rules"@ || s == "union"@ || s == "safe"@ || s == "raw"@
    }
    // keywords that cannot be raw identifiers (`r#self` etc. do not lex as identifiers)
    pub open spec fn not_raw_able(s: Seq<char>) -> bool {
        s == "crate"@ || s == "self"@ || s == "Self"@ || s == "super"@
    }
