// C19: MultiRef<T> is transparent.  `get` is the wrapped value; every forwarding impl is specified as
// "the effect of the wrapper equals the effect of the wrapped value" (from the property statement).
//# section: multiref-view
    impl<T> MultiRef<T> {
        pub closed spec fn get(self) -> T { *self.inner }
    }
    pub closed spec fn wrap<T>(v: T) -> MultiRef<T> { MultiRef { inner: Arc::new(v) } }
    pub proof fn wrap_get<T>(v: T) ensures wrap(v).get() == v {}
//# section: check-restrictions-members
        open spec fn dom(&self, r: Option<Rc<Restrictions>>) -> bool { self.get().dom(r) }
        open spec fn sat(&self, r: Option<Rc<Restrictions>>) -> bool { self.get().sat(r) }
//# section: deserialize-members
        open spec fn de_spec<R>(reader: yaserde::de::Deserializer<R>) -> (Result<Self, String>, yaserde::de::Deserializer<R>) {
            let (x, r2) = T::de_spec::<R>(reader);
            (match x { Ok(v) => Ok(wrap(v)), Err(e) => Err(e) }, r2)
        }
//# section: serialize-members
        open spec fn ser_spec<W>(&self, writer: yaserde::ser::Serializer<W>) -> (Result<(), String>, yaserde::ser::Serializer<W>) {
            self.get().ser_spec::<W>(writer)
        }
        open spec fn ser_attrs_spec(&self, attributes: Vec<xml::attribute::OwnedAttribute>, namespace: xml::namespace::Namespace)
            -> Result<(Vec<xml::attribute::OwnedAttribute>, xml::namespace::Namespace), String> {
            self.get().ser_attrs_spec(attributes, namespace)
        }
