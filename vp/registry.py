"""Which units / extras decide which property."""
from __future__ import annotations
import json
from .units.r import UnitR
from .units.m import UnitM
from .units.s import UnitS
from .units.w import UnitW
from .units import w_replay
from .units.k import UnitK
from .units import k_replay
from .units import l3run
from .units.d import UnitD
from .units import d_replay
from .units import m_replay
from .units import f_replay
from .units import s_replay
from .units.f import UnitF
from .units.x import UnitX, UnitXR
from .units import r_replay
from .units import x_replay
from .units import xr_replay
import functools as _ft


def c06_witness(pid, fails, repo):
    if getattr(fails[0], 'witness', None):
        return {'found': bool(fails[0].witness.get('kani_concrete_playback')), 'input': fails[0].witness}
    res = r_replay.search(repo)
    out = {'grid_cases_run_on_real_code': res['cases'], 'found': False}
    if res.get('error'):
        out['error'] = res['error']
        return out
    carriers = {r_replay.carrier_of(f.obligation) for f in fails}
    mm = [m for m in res['mismatches'] if m['carrier'] in carriers or None in carriers or 'check_bounds' in ' '.join(f.obligation for f in fails)]
    # do not present the known String/i128 numerals as the witness of some other failure
    mm = [m for m in mm if '170141183460469231731687303715884105728' not in m['value']] or []
    # a witness of "accepts every valid value" is a valid value that was rejected, and vice versa
    clauses = {f.obligation.rsplit('#', 1)[-1] for f in fails}
    if clauses == {'accepts-valid'}:
        mm = [m for m in mm if m['expected_ok']]
    elif clauses == {'rejects-invalid'}:
        mm = [m for m in mm if not m['expected_ok']]
    if mm:
        out['found'] = True
        out['input'] = mm[0]
        out['more'] = mm[1:6]
        out['total_mismatches'] = len(mm)
    return out


def c06_replay(path):
    rep = json.load(open(path))
    print('failed obligation:', rep['failed_obligation'])
    for f in rep['failures']:
        print(f['verus_output'])
    w = rep.get('witness') or {}
    if not w.get('found'):
        print('no failing input was recorded (no-failing-input-found); Verus output above names the obligation')
        return 1
    res = r_replay.search('/repo')
    want = w['input']
    still = [m for m in res['mismatches'] if m['carrier'] == want['carrier'] and m['value'] == want['value']
             and all(m[k] == want[k] for k in m if k.startswith('restrictions'))]
    print('recorded input:', json.dumps(want))
    print('on the current tree the real code', 'STILL disagrees with the property' if still else 'now agrees with the property', 'for this input')
    return 1 if still else 0


PROPS = {
    'C06': {
        'units': [UnitR], 'level': 'proof', 'witness': c06_witness, 'replay': c06_replay,
        'scope': 'every CheckRestrictions impl of helpers_content.rs::restrictions (i8..u64 via the macro, i32, String, '
                 'Option<C>, Vec<C>, bool, f32, f64) and check_bounds; all values, all restriction sets',
        'assumptions': [
            'std contracts listed in coverage.trusted_base (Rc clone, str::parse, Chars::count, slice::contains, From/TryFrom for integers)',
            'is_numeral/int_of are uninterpreted: the lexical form of integers is std\'s FromStr grammar == XSD integer lexical form',
            'machine integers are modelled exactly by Verus (overflow is an obligation, not assumed away)',
            'length/enumeration facets on integer carriers are outside the stated domain (dom); see DESIGN 4.6',
        ],
    },
}

PROPS['C06'].update({
    'design_ref': 'DESIGN.md 4.6',
    'level_text': 'Deductive proof (Verus/Z3), for ALL values of every carrier and ALL restriction sets, that each real '
                  'CheckRestrictions impl of helpers_content.rs returns Ok exactly when the value satisfies the facets '
                  '(spec written from the property wording), with panic/overflow freedom. The impl bodies are copied '
                  'byte-exact from /repo on every run; the macro instances are expanded by textual substitution.',
    'level_note': 'Trusted: assumed std contracts (Rc::clone equality, str::parse grammar/range, Chars::count, slice::contains, '
                  'integer From/TryFrom) listed in evidence.coverage.trusted_base; Verus+Z3 themselves. Outside the claim: '
                  'length/enumeration facets on integer carriers (dom). Known finding: numerals beyond i128 (String carrier).',
})

PROPS['C19'] = {
    'units': [UnitM], 'level': 'proof', 'design_ref': 'DESIGN.md 4.19',
    'scope': 'every impl of helpers_content.rs::multi_ref (new, CheckRestrictions, YaDeserialize, YaSerialize incl. '
             'serialize_attributes, Default, Clone, Deref), generically in T',
    'level_text': 'Deductive proof (Verus/Z3), for ALL T, that each forwarding impl of MultiRef<T> has exactly the effect of the '
                  'wrapped value\'s impl: serialize / serialize_attributes / deserialize equal T\'s uninterpreted effect functions, '
                  'check_restrictions has T\'s verdict, clone and deref preserve the value. Bodies copied byte-exact from /repo.',
    'level_note': 'Trusted: contract-only declarations of yaserde::{YaSerialize,YaDeserialize} (real 0.12 signatures), xml types, '
                  'vstd\'s Arc model; that yaserde_derive calls exactly these trait methods for a MultiRef<T> field. '
                  '"clones share" is proved as value equality through Arc::clone (pointer identity is a Kani harness in the thorough tier).',
    'assumptions': ['yaserde/xml-rs stand-ins in contracts/dep_yaserde.rs', 'vstd model of Arc (transparent in specifications)'],
}


def c16_witness(pid, fails, repo):
    res = s_replay.search(repo)
    want = {'C16': None, 'C07': ('sent-before-check', 'restriction-error')}[pid] if pid in ('C16', 'C07') else None
    an = [a for a in res['anomalies'] if want is None or a['aspect'] in want]
    # a witness must violate the clause it is offered for
    by_clause = {'no-value-for-failed-exchange': ('value-for-failed-exchange',), 'good-exchange-yields-value': ('error-for-good-exchange',),
                 'value-is-parsed-reply': ('value',)}
    clauses = {f.obligation.rsplit('#', 1)[-1] for f in fails}
    if len(clauses) == 1 and next(iter(clauses)) in by_clause:
        an = [a for a in an if a['aspect'] in by_clause[next(iter(clauses))]]
    out = {'found': bool(an), 'scripted_exchanges_run_on_real_code': res['exchanges']}
    if an:
        out['input'] = an[0]
        out['more'] = an[1:6]
    if res.get('error'):
        out['error'] = res['error'][-600:]
    return out


def c07_witness(pid, fails, repo):
    if any(getattr(f, 'unit', '') == 'XR' for f in fails):
        # facet reading (unit XR): restrictions declaring their facets in every supported way, read by the real reader
        res = xr_replay.search(repo)
        out = {'found': bool(res['anomalies']), 'restrictions_read_by_real_code': res['restrictions_read_by_real_code'], 'bounded': '421 restriction shapes'}
        if res['anomalies']:
            out['input'] = res['anomalies'][0]
            out['more'] = res['anomalies'][1:4]
            out['total_mismatches'] = res['n']
        if res.get('error'):
            out['error'] = res['error'][-600:]
        return out
    if any(f.obligation.startswith('helpers::') for f in fails):
        return c16_witness(pid, fails, repo)
    if any(f.obligation.startswith('restrictions::') for f in fails):
        return c06_witness(pid, fails, repo)
    return l3_witness(pid, fails, repo)


def c16_extra(pid, tier, seed, runs):
    """second mechanism of C16: the generated methods forward client, address and credentials (per corpus program, from the C05 pipeline)"""
    import re as _re
    res = l3run.run_concern('C05', tier, seed, runs)
    keep = _re.compile(r'.*(emitted::\w+::new#(posts-to-port-address|keeps-credentials)|wire:\w+::\w+#forwards-client-address-credentials-request)$')
    res['obligations'] = [o for o in res['obligations'] if keep.match(o)]
    fs = []
    for f in res['failures']:
        if keep.match(f.obligation):
            f.props = [pid]
            fs.append(f)
    res['failures'] = fs
    res['back_end'] = ' + per-program checks of the emitted service (constructor postcondition by Verus, method bodies as token sequences)'
    return res


def c16_witness_all(pid, fails, repo):
    if any(f.obligation.startswith(('emitted::', 'wire:')) for f in fails):
        return l3_witness(pid, fails, repo)
    return c16_witness(pid, fails, repo)


PROPS['C16'] = {
    'units': [UnitS], 'level': 'proof', 'design_ref': 'DESIGN.md 4.16', 'witness': c16_witness_all, 'extra': c16_extra,
    'scope': 'helpers::send_soap_request_using_client and helpers::send_soap_request (the code every generated client method '
             'calls), for all request/response types, urls, credentials, and every outcome of the exchange',
    'level_text': 'Deductive proof (Verus/Z3) over the real text of the two helper functions against contract-only reqwest/yaserde '
                  'stand-ins: the request that reaches `send` is a POST to the given url whose body is the serialization of the '
                  'envelope, with Basic credentials exactly when configured (callee preconditions); a value is returned only when '
                  'transport, status (not 4xx/5xx), body read and parse all succeeded, it is the parsed reply, and a good exchange '
                  'does yield it. All outcomes are symbolic (uninterpreted), so this covers every status/body/failure combination.',
    'level_note': 'Trusted: the reqwest/yaserde stand-in contracts (contracts/dep_reqwest.rs, dep_yaserde.rs) incl. that `send` is the '
                  'only wire operation and consumes its builder. "At most one POST" additionally rests on a syntactic guard (one '
                  '`.send(` call site, loop-free body; otherwise the check is inconclusive). One extraction rewrite: '
                  '`map_err(SoapError::YaserdeError)` is eta-expanded (additive). Forwarding of client/location/credentials by the '
                  'generated methods: per corpus / generated WSDL program the emitted constructor is verified (location == port address, credentials kept) '
                  'and each method body is compared as a token sequence with the one call of the proved helper (translation validation, not a proof '
                  'for all schemas). 3xx handling is outside the property.',
    'assumptions': ['reqwest 0.12 behaves as the stand-in contracts say', 'yaserde::ser::to_string / de::from_str are functions of their argument',
                    '"the body is the response envelope" is identified with "yaserde::de::from_str accepts it" (yaserde is lenient about the root element name and trailing bytes)',
                    'Display output is a function of the value (display<T>)'],
}
PROPS['C07'] = {
    'units': [UnitS, UnitR, UnitXR], 'level': 'proof', 'design_ref': 'DESIGN.md 4.7',
    'scope': '(b) transmission half: a request that fails its restriction check yields an error and no network-capable call is reachable '
             'before the check has passed',
    'level_text': 'Deductive proof (Verus/Z3): every network-capable stand-in call (send, text) requires net_allowed(), and the helper is '
                  'verified under `req.sat(None) ==> net_allowed()` only, so any wire operation on a path where the check failed (or before '
                  'it ran) is an unmet precondition; `!req.sat(None) ==> res is Err` is a postcondition.',
    'level_note': 'Round 11: types derived from a named simple type carry the extra clause #enforces-inherited-facets (a value violating a facet of the base is rejected); `X.or_else(|| E)` in emitted text is presented as a match (definition of or_else); a failed obligation of an emitted function with a closure / std call Verus knows nothing about makes the check inconclusive, never OK. Trusted: stand-in contracts as for C16; the trait contract of CheckRestrictions (proved per impl under C06 and, for '
                  'emitted impls, by the L3 pipeline). The error VARIANT (Restriction) is not proved: the `?` conversion hides it from Verus.',
    'assumptions': ['reqwest stand-ins', 'req.dom(None): numerals beyond i128 in numeric-restricted text are outside the domain (known finding of C06)'],
}


def c15_witness(pid, fails, repo):
    res = w_replay.search(repo)
    out = {'found': bool(res['anomalies']), 'documents': res['documents'], 'write_calls_injected': res['write_calls_injected'],
           'skipped': res['skipped']}
    if res['anomalies']:
        out['input'] = res['anomalies'][0]
        out['more'] = res['anomalies'][1:6]
    if res.get('error'):
        out['error'] = res['error']
    return out


def c15_replay(path):
    rep = json.load(open(path))
    print('failed obligation:', rep['failed_obligation'])
    for f in rep['failures']:
        print(f['verus_output'])
    res = w_replay.search('/repo')
    print('fault injection on the current tree:', res['documents'], 'documents,', res['write_calls_injected'], 'injected failures,',
          len(res['anomalies']), 'anomalies')
    for a in res['anomalies'][:10]:
        print('  ', a)
    return 1 if res['anomalies'] else 0


PROPS['C15'] = {
    'units': [UnitW], 'level': 'proof', 'design_ref': 'DESIGN.md 4.15', 'witness': c15_witness, 'replay': c15_replay,
    'scope': 'every function that writes generated text: the WriteXml impls for FileHeader, Helpers, RustDocument, RustNode, RustType, '
             'Field, Restrictions, SoapBinding, SoapService and the free writers write_complex_type, write_simple_type, write_type_alias, '
             'write_soap_operation, write_soap_action, write_async_soap_call, write_check_restrictions_header/footer',
    'level_text': 'Deductive proof (Verus/Z3) over the real text of all 23 writer functions against std::io::Write with a ghost history '
                  '(failed / complete): from a clean sink, a function that returns Ok leaves the sink with no failed write and no '
                  'dropped bytes, and no unwrap/expect on a write result can panic. Holds for every document, every failure index '
                  'and every loop iteration (loop invariants are spliced at loop ordinals), by modular composition of the callee contracts.',
    'level_note': 'Trusted: the ghost contract of io::Write::write_fmt ("all bytes or an error" — std\'s write_all loop, which is what '
                  'makes short-writing sinks lossless); thiserror\'s #[from] conversion; stand-ins for Inflector/Url/const_format. '
                  'Extraction drops (listed in evidence.coverage.extraction_dropped): pure sub-expressions Verus cannot process '
                  '(str::split, closures with tuple patterns, HashMap/filter iterables) are replaced by unconstrained values; none '
                  'mentions the sink. Byte-identity of the output under short writes is the write_fmt contract, not separately proved.',
    'assumptions': ['std::io::Write::write_fmt writes the whole formatted text or returns an error', 'dropped pure sub-expressions do not panic (C13 scope note)',
                    'iterators replaced by an unconstrained Vec are finite'],
}


def c14_witness(pid, fails, repo):
    if any(('service_type_name' in f.obligation or 'take_three_chars_max' in f.obligation) for f in fails):
        if not any(f.obligation.endswith(('#service-name-is-a-legal-identifier', '#stem-is-identifier-characters', '#safety')) for f in fails):
            return {'found': False, 'note': 'a helper clause has no observable of its own'}
        # the sanitisers (round 11): adversarial names / URIs through the real functions
        res = k_replay.search_sanitisers(repo)
        out = {'found': bool(res['mismatches']), 'names_and_uris_run_on_real_code': res['cases']}
        if res['mismatches']:
            out['input'] = res['mismatches'][0]
            out['more'] = res['mismatches'][1:8]
        if res.get('error'):
            out['error'] = res['error']
        return out
    res = k_replay.search(repo)
    out = {'found': bool(res['mismatches']), 'keywords_run_on_real_code': res['cases']}
    if res['mismatches']:
        out['input'] = res['mismatches'][0]
        out['more'] = res['mismatches'][1:8]
    if res.get('error'):
        out['error'] = res['error']
    return out


def c14_extra(pid, tier, seed, runs):
    """injection half: BOUNDED replay (adversarial text in every position where schema text flows into the output)"""
    from .units import j_replay
    from .core import Failure, REPO
    res = j_replay.search(REPO)
    out = {'obligations': [f'C14-injection:bounded:injection#{p}' for p in res['positions']], 'failures': [], 'trusted_base': [
               'independent Rust lexer vp/rustlex.py (classification of the emitted text into literal / comment / code tokens)'],
           'back_end': ' + bounded replay of the real generator with an independent lexer for the injection half',
           'coverage': {'bounded_standin': {
               'label': 'BOUNDED (not counted as proved)', 'what': 'adversarial values in every position where schema text reaches the output; the emitted file '
               'must lex as Rust, the value may appear only inside string-literal or comment tokens, a literal must evaluate to the original text, and the token '
               'structure must equal that of a harmless value', 'positions': res['positions'], 'payloads': res['payloads'], 'cases': res['cases'],
               'rejected_by_generator_with_an_error': res['rejected_by_generator'], 'bound': f"{len(res['positions'])} positions x {len(res['payloads'])} payload shapes, one at a time"}}}
    for a in res['anomalies']:
        f = Failure('C14-injection', f"bounded:injection#{a['position']}", f"value {a['value']!r} in position {a['position']}: " + '; '.join(a['problems'][:2]),
                    [{'file': 'schema', 'line': 0, 'text': f"{a['position']}:{a['payload']}", 'what': 'input'}], a.get('schema', ''), props=['C14'])
        f.witness = a
        out['failures'].append(f)
    if res.get('error'):
        class _I:
            unit = 'C14-injection'; status = 'inconclusive'; reason = 'injection harness did not run: ' + str(res['error'])[-300:]
        out['inconclusive'] = _I()
    return out


def c14_witness_all(pid, fails, repo):
    w = getattr(fails[0], 'witness', None)
    if w:
        return {'found': True, 'input': {k: w[k] for k in ('position', 'payload', 'value', 'problems')}, 'schema': w.get('schema', '')}
    return c14_witness(pid, fails, repo)


PROPS['C14'] = {
    'units': [UnitK], 'level': 'proof', 'design_ref': 'DESIGN.md 4.14', 'witness': c14_witness_all, 'extra': c14_extra,
    'scope': 'keyword half (proof): field.rs::rename_keywords and as_field_name, for ALL strings, against the edition-2024 strict and '
             'reserved keyword lists (weak keywords are legal identifiers and may stay); sanitisers (proof, round 11): service.rs::service_type_name '
             'returns a legal identifier for ALL service names, the stem function of doc.rs::make_abbreviated_namespace (take_three_chars_max) returns '
             'identifier characters only for ALL namespace URIs, rename_keywords maps an identifier to a legal (if necessary raw) identifier; '
             'injection half (bounded replay): names, enumeration and facet '
             'values, documentation, namespace URIs, addresses, soapAction, operation / part / message / service names',
    'level_text': 'TWO HALVES WITH DIFFERENT ASSURANCE. Injection half: bounded replay only (every position where schema text reaches the output x adversarial '
                  'payload shapes, real generator, independent lexer as oracle) - exploration, not proof. Keyword half: '
                  'deductive proof (Verus/Z3) over the real `match` on string literals: a non-keyword is returned unchanged; a strict or '
                  'reserved keyword is respelled to something that is not a keyword, and the raw form r#k is used only for keywords that may '
                  'be raw (not self/Self/crate/super); as_field_name never yields a keyword. Exhaustive over the keyword set and total over all other strings. '
                  'Round 11: two sanitisers of the injection half are PROVED too (service_type_name yields a legal identifier - plain ASCII identifier other than `_` and the keywords, or the raw form of a raw-able one - for every service name; the abbreviation stem is made of identifier characters only, at most three), '
                  'with str::Chars adapters and format! presented through contract-only stand-ins (listed in extraction_dropped / trusted_base).',
    'level_note': 'Trusted: &str extensionality axiom (equal character sequences are equal strings) and reveal_strlit of the literals; the '
                  'Inflector stand-in (snake case is an uninterpreted total function). The INJECTION half (schema text interpolated into string '
                  'literals / comments / attributes / code through format!, whose output is opaque to Verus) is NOT proved: it gets a BOUNDED replay '
                  '(labelled bounded in the evidence, never counted as proved): 18 positions x 9 adversarial payload shapes through the real generator, '
                  'the output classified by an independent lexer. Type, module, operation and envelope names do not go through rename_keywords and '
                  'are covered by that replay only.',
    'assumptions': ['keyword lists in contracts/keywords.json transcribe the Rust reference (edition 2024)',
                    'std: `s.chars().filter(f).collect::<String>()` / `.take(n)` keep only chars satisfying f (at most n); `s.chars().next()` is the first char; `format!("_{x}")` is "_" followed by x; char::is_ascii_alphanumeric / is_ascii_digit are the ASCII ranges (std_prelude.rs stdspec-present-chars, stdspec-char-class)'],
}


def l3_extra(pid, tier, seed, runs):
    return l3run.run_concern(pid, tier, seed, runs)


def l3_witness(pid, fails, repo):
    """replay for an L3 disagreement: re-run the current generator on that schema and show the emitted item next to the expectation"""
    import os, re
    from .l3.specgen import Emitted
    from . import l3gen
    f = fails[0]
    prog = next((e['text'] for e in f.exits if e.get('what') == 'program'), None)
    out = {'found': False, 'program': prog}
    if not prog:
        return out
    path = l3run.PATHS.get(prog) or os.path.join(os.path.dirname(os.path.dirname(os.path.abspath(__file__))), prog)
    if prog.startswith('generated:') and not os.path.exists(path):
        # regenerate the program from its seed: generated:seed<S>/gNNN/main.ext
        import re as _re
        from .l3 import gen as _gen
        from .core import scratch as _scratch
        mm = _re.match(r'generated:seed(\d+)/g(\d+)/(.+)', prog)
        root = os.path.join(_scratch(), 'regen')
        ps = _gen.generate(root, int(mm.group(1)), int(mm.group(2)) + 1)
        path = ps[int(mm.group(2))]
    g = l3gen.generate([path], repo)[path]
    out['generator_status'] = g['status']
    if g['status'] != 'OK':
        return out
    em = Emitted(g['out'])
    m = re.search(r'(?:shape:|sig:|emitted::|wire:|ns:|order:|decl:)(?:(\w+)::)?(\w+)', f.obligation)
    names = [x for x in (m.groups() if m else ()) if x]
    shown = []
    for it in em.items:
        for c in ([it] + list(it.children)):
            if c.kind in ('struct', 'impl', 'fn', 'type') and any(n and (n == c.name or n in c.name.split()) for n in names):
                shown.append(c.text[:1500])
            for cc in c.children:
                if cc.kind == 'fn' and any(n == cc.name for n in names):
                    shown.append(cc.text[:800])
    if f.obligation.endswith('#member-types-resolve'):
        # replay: the freshly emitted file still contains the line that names the missing type
        for fl in fails:
            for e in fl.exits:
                if e.get('what') == 'emitted line' and e.get('text') and e['text'] in em.src:
                    k = em.src.index(e['text'])
                    shown.append(em.src[max(0, em.src.rfind('pub struct', 0, k)):k + len(e['text'])][:1200])
    out['emitted_items'] = shown[:6]
    out['schema'] = open(path, encoding='utf-8').read()[:6000]
    out['expectation'] = f.message
    out['found'] = bool(shown) or f.obligation.startswith('index:')
    if not shown and f.obligation.startswith('shape:') and names:
        # the expected item is ABSENT from the freshly emitted file: that absence is the replayed observation
        want = names[-1]
        if not any(c.kind in ('struct', 'type') and c.name == want for it in em.items for c in ([it] + list(it.children))):
            out['found'] = True
            out['observation'] = f'no struct or alias named {want} in the file emitted for {prog}'
    if f.obligation.startswith('decl:'):
        try:
            from .l3 import model as _M
            again = {lab: (ok, det) for lab, ok, det in l3run.ns_decl_checks(em, _M.load(path))}
            if f.obligation in again and not again[f.obligation][0]:
                out['found'] = True
                out['observation'] = again[f.obligation][1]
        except Exception as e:      # replay aid only
            out['error'] = repr(e)
    out['input'] = {'schema_file': prog, 'disagreeing_item': f.obligation}
    return out


PROPS['C07']['extra'] = l3_extra
PROPS['C07']['witness'] = c07_witness
PROPS['C07']['scope'] = ('(a) every emitted `impl restrictions::CheckRestrictions for X` of every corpus program returns Ok exactly when the value '
                         'satisfies the facets the schema declares for its type, at every depth and through Option/Vec (proof per program, all values); '
                         '(b) transmission half: a request that fails its check yields an error and no network-capable call is reachable before the check passed')
PROPS['C07']['level_text'] = ('(a) Per corpus program, the code EMITTED by the current generator is verified by Verus/Z3 against `sat`/`dom` predicates that an '
                              'independent schema reader derives from the XSD: for ALL values of each generated type, check_restrictions is Ok iff every declared '
                              'facet holds (inherited facets of derived simple types included), composing through struct members, Option and Vec up to the '
                              'request envelope. The quantifier over schemas is the corpus (the hand-written corpus programs plus 3 generated ones; 45 generated in the thorough tier). '
                              '(b) ' + PROPS['C07']['level_text'])
PROPS['C07']['level_note'] += (' Generator half of (a), unit XR (Verus/Z3, all restriction nodes): build_restrictions / get_restriction_from_attribute_or_node of structures/restrictions.rs read each of the 11 scalar facets from the attribute of that name or the value of the first child element of that name (compared up to surrounding white space), and SimpleProps::try_from_node (simple.rs) gives a simple type the facets of ITS first restriction child and its own name; the enumeration list is built by iterator adapters outside Verus\' reach and is presented as an unconstrained value there (decided at L3). L3: contracts of the helper runtime are imported from units R and S (proved there). Stand-ins for yaserde derives. '
                               'Known finding: own facets of a simple type derived from a named simple type are not enforced.')

def x_witness(pid, fails, repo):
    """failed / undecided obligations of unit X: bounded search over small content-model trees on the real reader (x_replay); other failures: L3 replay"""
    if not any(getattr(f, 'unit', '') == 'X' for f in fails):
        return l3_witness(pid, fails, repo)
    # the replayed observable is the member list (names, order, wrappers) of the struct: it is a witness for the property-level clauses only
    PROPERTY_CLAUSES = ('fields-so-far', 'content-child-tracked', 'no-complex-type-child-so-far', 'element-is-alias-or-carries-its-anonymous-type', 'component-kind-follows-the-tag', 'one-field-per-member-in-order', 'fields-are-the-members', 'base-members-then-own', 'derived-type-is-base-then-own',
                        'content-then-attributes', 'flags-follow-the-declaration', 'anchor-lost', 'read-component-denotes-the-reference', 'base-lookup-finds-a-type')
    if not any(f.obligation.rsplit('#', 1)[-1] in PROPERTY_CLAUSES for f in fails if getattr(f, 'unit', '') == 'X'):
        return {'found': False, 'note': 'helper clause: no observable to replay'}
    res = x_replay.search(repo)
    an = res['anomalies']
    # a witness of an extension clause must be a derived type
    if all(('import_extension_fields' in f.obligation or 'read_complex_content_node' in f.obligation) for f in fails):
        an = [a for a in an if a['derived']]
    out = {'found': bool(an), 'trees_read_by_real_code': res['trees_read_by_real_code'], 'bounded': 'content-model trees of depth <= 3 (1603 schemas)'}
    if an:
        out['input'] = an[0]
        out['more'] = an[1:4]
        out['total_mismatches'] = res['n']
    if res.get('error'):
        out['error'] = res['error'][-600:]
    return out


PROPS['C02'] = {
    'units': [UnitF, UnitX], 'level': 'translation_validation', 'design_ref': 'DESIGN.md 4.2', 'extra': l3_extra, 'witness': x_witness,
    'scope': 'shape of the emitted structs per corpus program: one struct per named complex/simple type and anonymous-typed global element, in the '
             'module of its namespace, with exactly the declared members (inherited first), names in snake_case (keywords respelled), wrapped '
             'T / Option<T> / Vec<T> by occurrence, typed by the reference mapping of DESIGN 2.2',
    'level_text': '(L2, proof, unit X) Deductive proof (Verus/Z3) for ALL document trees, against a contract-only roxmltree stand-in: the flattening functions of complex.rs emit one field per declared member in document order, Field::try_from_node sets Vec / Option / choice / attribute flags as the property words them over the enclosing groups, ElementProps / RustNode::try_from_node pick the component kind. (L3) Translation validation with contracts: for each corpus program the independent reader derives a ghost "shape contract" per expected '
                  'struct (an exhaustive destructuring pattern with the expected member names and a typed tuple of the expected member types); '
                  'the contract is checked against the text the current generator emits by Verus\' front end (rustc type checking of ghost code). '
                  'A type error inside a shape contract is the disagreement. Per program, not for all schemas.',
    'level_note': 'The deciding step is rustc\'s type checker inside Verus, not an SMT obligation (reported as translation_validation, never as proof). '
                  'Trusted: the independent reader (vp/l3/model.py) and its PascalCase/snake_case rules, valid for the corpus vocabulary. '
                  'Additionally the builtin table of field.rs::as_rust_type is PROVED for all strings (unit F, 27 rows + the named-type arm). The FLATTENING of content models is PROVED for all document trees (unit X: import_sequence_node_fields / import_choice_fields / read_sequence_node / ComplexProps::try_from_node of complex.rs, plus Field::try_from_node (occurrence flags from the property wording), ElementProps::try_from_node (anonymous-typed global elements) and RustNode::try_from_node (component kind, namespace), against a contract-only roxmltree stand-in: one field per member, in document order, nested groups flattened in place, nothing dropped or added; termination by tree height). Not covered: schemas outside the corpus, derive-generated (de)serialisers, the type of a member reached through ref= (find_node_by_xml_name: C09), the Vec/Option wrapper TEXT written by `impl WriteXml for Field` (format! output; observed at L3).',
    'technique': 'contract-based deductive verification (Verus/Z3) of the reader functions of complex.rs / field.rs / element.rs / node.rs extracted from /repo each run (unit X, all document trees) + schema-derived ghost shape contracts type-checked by Verus against the code emitted by the current generator (per program)',
    'assumptions': ['independent schema reader implements DESIGN 2.1/2.2 faithfully', 'corpus names are in the vocabulary whose case conversion is unambiguous'],
}
PROPS['C05'] = {
    'units': [], 'level': 'translation_validation', 'design_ref': 'DESIGN.md 4.5', 'extra': l3_extra, 'witness': l3_witness,
    'scope': 'per corpus WSDL: the service constructor posts to the port address (SMT obligation on the emitted constructor), one async method per '
             'operation with the request/response envelope signature (type-checked signature obligations), envelope/header/body struct shapes',
    'level_text': 'Translation validation with contracts on the emitted client: `Service::new` is verified against `ensures res.location@ == <address '
                  'read from the WSDL by the independent reader> && res.credentials == credentials` (Verus/Z3); for each operation a generated '
                  'never-called function `sig_<op>` calls the emitted method with the expected request envelope and result type, and shape contracts '
                  'pin Envelope { header?, body }, the single body member and one Option member per bound header part. Per program.',
    'level_note': 'Signature and shape obligations are decided by rustc type checking inside Verus. Not covered: element QNames on the wire (yaserde '
                  'attribute text), absence of EXTRA methods, the POST itself (C16), forwarding of credentials by the emitted closure. '
                  'Known finding: one-way operations do not type-check ((): YaDeserialize).',
    'technique': 'constructor postcondition (Verus/Z3) + signature/shape contracts type-checked by Verus on the emitted client',
    'assumptions': ['independent WSDL reader', 'reqwest/yaserde stand-ins'],
}


def c10_witness(pid, fails, repo):
    res = d_replay.search(repo)
    merge_only = all('extend' in f.obligation for f in fails)
    # anomalies of document merges are the known finding of `extend`; they are evidence only for failures of `extend` itself
    an = res['merge_anomalies'] if merge_only else res['seq_anomalies']
    out = {'found': bool(an), 'operation_steps_run_on_real_code': res['steps_checked']}
    if an:
        out['input'] = an[0]
        out['more'] = an[1:6]
    if res.get('error'):
        out['error'] = res['error']
    return out


def c10_extra(pid, tier, seed, runs):
    res = l3run.run_c10(pid, tier, seed, runs)
    # BOUNDED, always run: every sequence of up to 3 registrations over an adversarial URI pool on the REAL table (the one assumed
    # zeep contract of unit D, create_mod_name_for_namespace == "mod_" + abbreviation, and the dropped stem computation are only
    # covered here).  Merges of two documents are the known finding and are not part of this bounded obligation.
    from .core import Failure, REPO
    dr = d_replay.search(REPO)
    lab = 'bounded:namespace-table#all-sequences-of-3-registrations'
    res['obligations'].append('C10-sequences:' + lab)
    res.setdefault('coverage', {})['bounded_standin'] = {'label': 'BOUNDED (not counted as proved)', 'what': 'sequences of up to 3 add_namespace_reference / '
        'switch_to_target_namespace calls over 13 adversarial URIs x 2 prefixes on the real RustDocument; URI<->prefix and URI<->module bijective, module == mod_<prefix>, '
        'bindings never change', 'steps_checked': dr.get('steps_checked'), 'sequence_anomalies': len(dr.get('seq_anomalies', []))}
    if dr.get('error'):
        class _I:
            unit = 'C10-sequences'; status = 'inconclusive'; reason = 'namespace-table harness did not run: ' + str(dr['error'])[-300:]
        res['inconclusive'] = _I()
    for a in dr.get('seq_anomalies', [])[:3]:
        f = Failure('C10-sequences', lab, f"after {a['operations']}: {a['problem']}", [{'file': 'doc.rs', 'line': 0, 'text': a['operations'], 'what': 'input'}], '', props=[pid])
        f.witness = {'found': True, 'input': a}
        res['failures'].append(f)
    return res


def c10_witness_all(pid, fails, repo):
    if getattr(fails[0], 'witness', None) and fails[0].obligation.startswith('bounded:'):
        return fails[0].witness
    if any(f.obligation.startswith(('decl:', 'index:')) for f in fails):
        return l3_witness(pid, fails, repo)
    return c10_witness(pid, fails, repo)


PROPS['C10'] = {
    'units': [UnitD], 'level': 'proof', 'design_ref': 'DESIGN.md 4.10', 'witness': c10_witness_all, 'extra': c10_extra,
    'scope': 'the namespace table of RustDocument (doc.rs): make_abbreviated_namespace, add_namespace_reference, switch_to_target_namespace, '
             'extend, extend_no_duplicates, empty — for all URIs, prefixes and all sequences of registrations (invariant preserved by each mutator)',
    'level_text': 'Deductive proof (Verus/Z3) of a representation invariant `wf` over the real text of every mutator: URI<->prefix is a bijection over the '
                  'table, module name = "mod_"+prefix, every target namespace / prefix binding / the current namespace is an entry of the table; '
                  'add_namespace_reference never changes an existing binding and binds a new prefix to the entry of that URI; after '
                  'switch_to_target_namespace(u) the current module is the one of u; make_abbreviated_namespace returns an abbreviation unused by '
                  'every listed entry. Unbounded: all strings, all table sizes, all call histories (by induction over the invariant).',
    'level_note': 'Also under contract (round 8): node.rs collect_namespaces_on_node — every xmlns declaration in scope of a node goes through add_namespace_reference: the table stays well-formed, existing bindings are unchanged, and every new binding maps a DECLARED prefix to the URI it was declared with (roxmltree `namespaces()` is a contract-only stand-in). Trusted: assumed std contracts (slice Iterator::any/find via closure postconditions, String==str, HashMap<String,_> key model, '
                  'Extend, Rc clone); derive(PartialEq) of Namespace as field-wise equality. ASSUMED zeep contract: create_mod_name_for_namespace returns '
                  '"mod_"+abbreviation (format! text is opaque to Verus). Dropped: the 3-character stem computation in make_abbreviated_namespace '
                  '(pure; its value is irrelevant to uniqueness). Ghost proof blocks are spliced at text anchors. Known finding: RustDocument::extend '
                  '(merging an imported file) does not preserve injectivity (its binding-preservation clause is proved since fix 9198111). '
                  'SECOND PART (translation validation, per corpus/generated program, no solver): the namespace declarations of the EMITTED file are read from '
                  'the #[yaserde(..)] attribute text and compared: prefix<->URI is a bijection over the file, each struct declares its own prefix, every prefix '
                  'a member or envelope uses is declared by the struct or by the struct of the member type, one module per target namespace.',
    'assumptions': ['String values are determined by their character sequence', 'iterators visit exactly the elements of the slice'],
}


def c13_extra(pid, tier, seed, runs):
    from .units import c13_replay
    from .core import Failure
    res = c13_replay.search(tier=tier, seed=seed)
    out = {'obligations': [], 'failures': [], 'trusted_base': [], 'coverage': {
        'bounded_standin': {'label': 'BOUNDED (not counted as proved)', 'what': 'structure-aware mutants of the corpus schemas + fixed malformed inputs, '
                            'read and written by the real library under catch_unwind', 'mutants': res['mutants'], 'completed': res['completed'],
                            'outcomes': res['outcomes'], 'slowest_ms': res['slowest_ms'], 'bound': '30 mutants per corpus document (quick) / 250 (thorough), one mutation each'}}}
    for a in res['anomalies']:
        f = Failure('C13-mutants', 'bounded:mutant#no-panic-no-abort-no-hang', f"{a['observed']} on mutant {a['mutant']}", [{'file': a.get('file', ''), 'line': 0, 'text': a['mutant'], 'what': 'input'}],
                    a.get('text', ''), props=['C13'])
        f.witness = a
        out['failures'].append(f)
    if res.get('error'):
        class _I:
            unit = 'C13-mutants'; status = 'inconclusive'; reason = 'mutant harness did not run: ' + res['error'][-300:]
        out['inconclusive'] = _I()
    return out


def c13_witness(pid, fails, repo):
    f = fails[0]
    w = getattr(f, 'witness', None)
    if w:
        return {'found': True, 'input': {'mutant': w['mutant'], 'observed': w['observed'], 'file_text': w.get('text', '')[:3000]}}
    if f.unit == 'W' and f.obligation.endswith('#safety'):
        # panic freedom of a writer: the fault-injection harness runs every document against a sink failing at each write index
        res = w_replay.search(repo)
        pan = [a for a in res['anomalies'] if a['observed'] in ('PANIC', 'HANG')]       # panic freedom and termination
        out = {'found': bool(pan), 'write_calls_injected': res['write_calls_injected']}
        if pan:
            out['input'] = pan[0]
            out['more'] = pan[1:6]
        return out
    if f.unit == 'X':
        # panic freedom / termination of the flattening functions: the bounded tree family on the real reader
        res = x_replay.search(repo)
        pan = [a for a in res['anomalies'] if a['members_of_T_observed'] in ('PANIC', 'HANG', 'ABORT')]
        out = {'found': bool(pan), 'trees_read_by_real_code': res['trees_read_by_real_code']}
        if pan:
            out['input'] = pan[0]
            out['more'] = pan[1:4]
        return out
    return {'found': False}


PROPS['C13'] = {
    'units': [UnitR, UnitM, UnitS, UnitW, UnitK, UnitD, UnitX, UnitXR], 'level': 'proof', 'design_ref': 'DESIGN.md 4.13', 'extra': c13_extra, 'witness': c13_witness,
    'scope': 'SCOPED: panic freedom (no unwrap/expect/assert/overflow/index failure) and termination (decreases on every loop) of the functions '
             'under contract in units R, M, S, W, K, D, X only (helpers_content.rs runtime, all writer functions, rename_keywords, the namespace table, the flattening recursion of complex.rs). '
             'The roxmltree-driven reading code is outside Verus\' reach and gets a BOUNDED mutant run instead (labelled, not counted as proved).',
    'level_text': 'For every exec function Verus verifies it also discharges the implicit obligations: preconditions of unwrap/expect/index, arithmetic '
                  'overflow, reachability of assert!/assert_ne! (core::panicking::assert_failed requires false) and termination of loops. This check '
                  'collects those `#safety` obligations of all units (for all inputs of those functions). In addition, as a bounded stand-in for the '
                  'reader, structure-aware mutants of the corpus schemas plus fixed malformed inputs (self/mutual imports, self-extending types, '
                  'non-XML) are run through the real read+write under catch_unwind.',
    'level_note': 'NOT a whole-library claim: roxmltree, Inflector, url parsing, the import recursion and every reader function (try_from_node impls) are '
                  'covered only by the bounded mutant run. Pure sub-expressions dropped by the extraction (listed in evidence) are assumed panic-free. '
                  'Known finding: assert_ne!(append, Some(255)) in make_abbreviated_namespace is reachable with 255 colliding abbreviations.',
    'assumptions': ['dropped pure sub-expressions do not panic', 'stand-in contracts of third-party crates'],
}

PROPS['C08'] = {
    'units': [UnitX], 'level': 'translation_validation', 'design_ref': 'DESIGN.md 4.8', 'extra': l3_extra, 'witness': x_witness,
    'scope': 'per corpus program with complex types defined by extension (chains of depth 1..4, fan-out, bases declared before / after / in another '
             'file, same or other namespace, own content empty / sequence / choice / attributes): the emitted struct of the derived type has the base '
             'struct\'s members first, in order, then its own, and each element member keeps the prefix of the namespace that declared it',
    'level_text': '(L2, proof, unit X) Deductive proof (Verus/Z3) for ALL document trees: import_extension_fields / read_complex_content_node yield the fields of the base that the type lookup returns for the QName in base= (in the base order) followed by the members the extension declares (on the subset extension shapes: exactly members(extension)). (L3) Translation validation with contracts: the independent reader computes, for every derived type, the member list base-first (recursively) '
                  'and emits a shape contract (exhaustive destructuring pattern in that order + one typed projection per member); Verus\' front end '
                  'type-checks it against the struct the current generator emits. The namespace clause is an attribute-text comparison '
                  '(#[yaserde(prefix=..)] of each inherited/own element vs. the prefix of its declaring namespace). Per program, not for all schemas.',
    'level_note': 'In addition (unit X, Verus/Z3, for ALL document trees): import_extension_fields and read_complex_content_node of complex.rs are PROVED to yield the '
                  'fields of the base that the document\'s type lookup returns for the QName in base= (local name + namespace bound to its prefix), in the base\'s order, '
                  'followed by one field per member the extension declares, in order. Assumed there: the roxmltree stand-in, find_type_by_xml_name is a function of '
                  'its arguments (WHAT it finds is C09), Field::try_from_node only named. ComplexProps::try_from_node (the dispatch on complexContent / sequence / attribute) is proved to yield the fields of the content child read last followed by one field per attribute declared after it. '
                  'Member ORDER at L3 is checked through the destructuring pattern only as far as names and types distinguish members. Trusted: the independent reader.',
    'technique': 'contract-based deductive verification (Verus/Z3) of import_extension_fields / read_complex_content_node extracted from /repo each run (unit X, all document trees) + schema-derived ghost shape contracts (base members first) type-checked by Verus against the emitted structs; attribute-text comparison for namespaces',
    'assumptions': ['independent schema reader implements XSD extension semantics (base content, then own content, then attributes in declaration order of each level)'],
}


def c09_witness(pid, fails, repo):
    if any(f.obligation.startswith(('shape:', 'sig:', 'wire:', 'index:', 'order:', 'ns:')) for f in fails):
        return l3_witness(pid, fails, repo)
    if any(f.unit == 'D' for f in fails):
        return c10_witness(pid, fails, repo)         # the namespace-table functions of doc.rs: sequences of registrations on the real table
    res = f_replay.search(repo)
    out = {'found': bool(res['anomalies']), 'prefix_lookups_run_on_real_code': res['lookups_checked']}
    if res['anomalies']:
        out['input'] = res['anomalies'][0]
        out['more'] = res['anomalies'][1:5]
        out['total'] = res['n']
    if res.get('error'):
        out['error'] = res['error'][-600:]
    return out


PROPS['C09'] = {
    'units': [UnitF, UnitD], 'level': 'proof', 'design_ref': 'DESIGN.md 4.9', 'extra': l3_extra, 'witness': c09_witness,
    'scope': '(L2, proof) the prefix table of doc.rs (unit D, shared with C10: every registration keeps URI<->prefix a bijection and never changes an existing '
             'binding) and field.rs split_type / resolve_type / as_rust_type and doc.rs find_namespace_by_abbreviation / '
             'find_module_name_from_namespace_reference: a QName is split at its first colon and its prefix is resolved through the document\'s '
             'prefix table only; (L3, per program) in corpus programs that reuse local names across namespaces, component kinds, files and '
             'declaration orders, every type=, base=, ref= and message-part reference in the emitted code is bound to the struct of the right module',
    'level_text': 'Deductive proof (Verus/Z3), for all strings and all prefix tables: split_type returns (local part, prefix) as defined by the first '
                  '\':\' (lemma: "p:n" with colon-free p splits into exactly (p, n)); resolve_type returns the namespace entry bound to that prefix (or None); '
                  'as_rust_type names a non-builtin type PascalCase(local) in the module of the entry bound to the prefix, and maps the 27 builtins to the '
                  'reference carriers (C02 table). Plus L3 translation validation of the emitted member / envelope types on multi-namespace programs.',
    'level_note': 'find_node_by_xml_name / find_type_by_xml_name / find_component_by_xml_name (doc.rs) are PROVED for the table branch: whenever the nodes read so far contain a '
                  'component called Name in the referenced namespace (a type, where a type is wanted), the result is such a component — never one of another namespace, name or kind. '
                  'NOT covered by proof: the tree-search fallback for forward references (try_to_find_node_by_xml_name_in_xml_doc: roxmltree descendants + the whole reader; declared '
                  'without contract); its effect is only observed per program by the L3 shape contracts. Trusted: str::split_once '
                  'axiom (first occurrence), HashMap<String,_> lookup by &str, Inflector stand-in (pascal is an uninterpreted function).',
    'assumptions': ['split_once(char) splits at the first occurrence', 'String keys are determined by their text'],
}


def kani_extra_for(harnesses, label):
    def extra(pid, tier, seed, runs):
        if tier != 'thorough':
            return {'obligations': [], 'failures': [], 'coverage': {'second_back_end': 'Kani harnesses run in the thorough tier only'}}
        from . import kani_run
        from .core import Failure
        res = kani_run.run(harnesses)
        out = {'obligations': [], 'failures': [], 'trusted_base': ['Kani 0.68 / CBMC 6.11 (second back end)'], 'back_end': ' + Kani 0.68 (CBMC, CaDiCaL)',
               'coverage': {'kani': {h: {k: v for k, v in r.items() if k in ('status', 'time_s', 'covers')} for h, r in res.items()},
                            'kani_note': 'loop-free harnesses over kani::any() of the full domain (value and four Option<i32> facets), --default-unwind 3 with unwinding assertions on: a complete proof per carrier'}}
        bad = []
        for h, r in res.items():
            ob = f'kani:{h}#{label}'
            out['obligations'].append(ob)
            if r['status'] == 'SUCCESSFUL' and (not r.get('covers') or r['covers'][0] == r['covers'][1]):
                continue
            if r['status'] in ('FAILED', 'FAILURE'):
                f = Failure('kani', ob, 'Kani: ' + '; '.join(r.get('failed_checks', []))[:300], [], r.get('playback', ''), props=[pid])
                f.witness = {'kani_concrete_playback': r.get('playback', '')}
                out['failures'].append(f)
            else:
                bad.append(f'{h}: {r["status"]} {r.get("detail", "")[-200:]}')
        if bad:
            class _I:
                unit = 'kani'; status = 'inconclusive'; reason = ' | '.join(bad)
            out['inconclusive'] = _I()
        return out
    return extra



def c19_witness(pid, fails, repo):
    if getattr(fails[0], 'witness', None):
        return {'found': bool(fails[0].witness.get('kani_concrete_playback')), 'input': fails[0].witness}
    res = m_replay.search(repo)
    out = {'found': bool(res['anomalies']), 'probe_values_run_on_real_code': res['probe_values']}
    if res['anomalies']:
        out['input'] = res['anomalies'][0]
        out['more'] = res['anomalies'][1:5]
    if res.get('error'):
        out['error'] = res['error'][-600:]
    return out


PROPS['C19']['witness'] = c19_witness
PROPS['C06']['extra'] = kani_extra_for(['c06_' + t for t in ('i8', 'u8', 'i16', 'u16', 'i32', 'u32', 'i64', 'u64')], 'ok-iff-facets-hold')
PROPS['C19']['extra'] = kani_extra_for(['c19_clone_shares'], 'clone-shares-the-allocation')

PLANNED = 'claimed in DESIGN.md but the check is not built yet at this commit (listed here so that no unbuilt check is advertised)'
NOT_APPLICABLE = {
    'C01': 'Compilability of a whole emitted file is decided by rustc name resolution/type checking and yaserde_derive proc-macro expansion; no pre/postcondition of a zeep function entails it and Verus cannot load the dependency crates (DESIGN 4.1).',
    'C03': 'The observable is the byte output of yaserde::ser on derive-generated code running on the yaserde/xml-rs runtime; none of it is zeep code and neither verifier can load or symbolically execute it (DESIGN 4.3).',
    'C04': 'Same as C03 for yaserde::de plus a quantifier over instance documents that exist only at that runtime (DESIGN 4.4).',
    'C11': 'File-processed flags are AtomicBool state mutated through & references across a mutual recursion; a Verus contract cannot mention it without porting the code to permission tokens (a look-alike), and Kani does not get through roxmltree+HashMap (DESIGN 4.11).',
    'C12': 'Determinism across processes/hash seeds/registration orders is a hyperproperty over pairs of runs (HashMap RandomState, flags persisting across calls); not expressible as a per-call contract without a complete functional spec of the generator (DESIGN 4.12).',
    'C17': 'Process-level observables (exit status, panics as error path, clap, File::create effects); no function result to attach a postcondition to and no file-system model in Verus/Kani (DESIGN 4.17).',
    'C18': 'Send/Sync are auto traits decided by rustc\'s trait solver over the real reqwest future types; neither verifier has a notion of auto traits (DESIGN 4.18).',
    
}
NOTES = ('All checks: ./check <id> [--tier quick|thorough]; exit 0 ok, 1 VIOLATION, 2 inconclusive (lost anchor / unsupported '
         'construct / solver limit / vacuity guard) which is never an alarm. Known findings: /verif/known_findings.json. '
         'Scratch work under ${VERIF_SCRATCH:-/var/tmp}/zeep-verif.<pid>.*, removed at exit.')
