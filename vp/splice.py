"""Assemble a single-file Verus input from (a) byte-exact slices of /repo and (b) contract text.

Every output line is tagged either with its origin (repo file + line) or with a contract label,
so that a Verus diagnostic can be mapped back to "obligation <label> of function <f> failed at
the exit on <file>:<line>".
"""
from __future__ import annotations
import hashlib
import re
from dataclasses import dataclass, field
from typing import Dict, List, Optional, Tuple

from .rustlex import Item, Tok, body_loops, loop_body_open, match_close, _next_sig


# iterator / string methods known to have NO contract in this vstd or in contracts/std_prelude.rs (non-exhaustive)
UNSPECIFIED_STD = {'position', 'rposition', 'fold', 'try_fold', 'filter_map', 'find_map', 'flat_map', 'flatten', 'max', 'min', 'max_by_key', 'min_by_key',
                   'sum', 'product', 'last', 'nth', 'skip_while', 'take_while', 'step_by', 'chain', 'cycle', 'peekable', 'scan', 'inspect',
                   'partition', 'reduce', 'rfind', 'rev_find', 'dedup', 'retain', 'sort', 'sort_by', 'sort_by_key', 'sort_unstable', 'drain', 'windows', 'chunks',
                   'trim', 'trim_start', 'trim_end', 'strip_prefix', 'strip_suffix', 'starts_with', 'ends_with', 'replace', 'to_uppercase',
                   'char_indices', 'bytes', 'lines', 'split_whitespace', 'rsplit', 'splitn', 'matches', 'eq_ignore_ascii_case', 'values', 'values_mut', 'keys',
                   'entry', 'or_default', 'or_insert', 'or_insert_with', 'get_or_insert_with', 'binary_search', 'concat', 'join'}


class AnchorLost(Exception):
    """an anchor (item path, loop ordinal, text pattern) is missing or ambiguous in /repo's current
    tree: the check is inconclusive (exit 2), never an alarm"""


@dataclass
class Chunk:
    text: str
    origin: Optional[Tuple[str, int]] = None    # (repo-relative file, first line)
    label: Optional[str] = None                 # contract clause label
    fn: Optional[str] = None                    # id of the function under contract this belongs to
    out_line: int = 0


@dataclass
class FnRecord:
    fid: str                 # short id used in labels, e.g. "restrictions::i32::check_restrictions"
    file: str
    path: str                # item path in the repo file
    lines: Tuple[int, int]
    body_sha256: str
    out_lines: Tuple[int, int] = (0, 0)
    clauses: List[str] = field(default_factory=list)     # labels of explicit clauses (requires are not obligations of the fn itself)
    ensures: List[str] = field(default_factory=list)
    invariants: List[str] = field(default_factory=list)
    origin: Dict[str, str] = field(default_factory=dict)  # label -> 'property' | 'helper'
    has_requires: bool = False


class Out:
    def __init__(self):
        self.chunks: List[Chunk] = []
        self.fns: Dict[str, FnRecord] = {}
        self.edits: List[str] = []
        self.dropped: List[str] = []
        self.uncontracted: List[str] = []
        self.imported: List[str] = []
        self.unconstrained: Dict[str, List[str]] = {}
        self._cur_fn: Optional[str] = None

    # -- low level ------------------------------------------------------------------------------
    def _ensure_newline(self):
        if self.chunks and not self.chunks[-1].text.endswith('\n'):
            self.chunks[-1].text += '\n'

    def code(self, text: str, file: str, line: int):
        """verbatim repo text; must start at the beginning of an output line"""
        if not text:
            return
        self._ensure_newline()
        line += getattr(file, 'offset', 0)
        self.chunks.append(Chunk(text, origin=(str(file), line), fn=self._cur_fn))

    def spec(self, text: str, label: Optional[str] = None):
        self._ensure_newline()
        if not text.endswith('\n'):
            text += '\n'
        self.chunks.append(Chunk(text, label=label, fn=self._cur_fn))

    def finish(self) -> str:
        self._ensure_newline()
        line = 1
        for c in self.chunks:
            c.out_line = line
            line += c.text.count('\n')
        return ''.join(c.text for c in self.chunks)

    def locate(self, out_line: int) -> Optional[Chunk]:
        lo = None
        for c in self.chunks:
            n = c.text.count('\n')
            if c.out_line <= out_line < c.out_line + max(n, 1):
                lo = c
                break
        return lo

    def describe(self, out_line: int) -> dict:
        c = self.locate(out_line)
        if c is None:
            return {'kind': 'unknown', 'out_line': out_line}
        if c.origin:
            return {'kind': 'code', 'file': c.origin[0], 'line': c.origin[1] + (out_line - c.out_line), 'fn': c.fn}
        label = c.label
        if label is None:
            lines = c.text.split('\n')
            k = out_line - c.out_line
            if 0 <= k < len(lines):
                import re as _re
                m = _re.search(r'//\s*\[label:\s*([^\]]+)\]', lines[k])
                if m:
                    label = '#' + m.group(1).strip()
        return {'kind': 'contract', 'label': label, 'fn': c.fn}


def _prev_sig(toks, k):
    while k >= 0 and toks[k].kind in ('ws', 'comment', 'doc'):
        k -= 1
    return k


def sha(text: str) -> str:
    return hashlib.sha256(text.encode()).hexdigest()


def _line(it: Item, tok_index: int) -> int:
    return it.line_of(it.toks[tok_index].start)


def _slice(it: Item, a: int, b: int) -> str:
    """source text from start of token a to start of token b"""
    return it.src[it.toks[a].start:it.toks[b].start]


def strip_attr_tokens(it: Item) -> int:
    """token index where the item proper starts (after outer attributes and doc comments)"""
    return it.head_first


def emit_verbatim(out: Out, it: Item, file: str, keep_attrs: bool = False):
    """emit an item unchanged except that attributes (derive, allow, yaserde, error, from, default, ...)
    are dropped: outer ones on the item and, for struct/enum/union, those on fields and variants
    (blanked in place so that line numbers still map 1:1)"""
    a = it.first if keep_attrs else it.head_first
    toks = it.toks
    text = it.src[toks[a].start:it.end]
    if not keep_attrs and it.kind in ('struct', 'enum', 'union') and it.open is not None:
        base = toks[a].start
        chars = list(text)
        k = it.open + 1
        while k < it.last:
            t = toks[k]
            if t.kind == 'punct' and t.text == '#':
                j = _next_sig(toks, k + 1)
                if toks[j].text == '[':
                    cl = match_close(toks, j)
                    seg = it.src[t.start:toks[cl].end]
                    out.edits.append(f'dropped attribute {" ".join(seg.split())} inside {it.path()}')
                    for x in range(t.start - base, toks[cl].end - base):
                        if chars[x] != '\n':
                            chars[x] = ' '
                    k = cl + 1
                    continue
            k += 1
        text = ''.join(chars)
    out.code(text + '\n', file, _line(it, a))
    if not keep_attrs and it.attrs:
        for (x, y) in it.attrs:
            t = it.src[it.toks[x].start:it.toks[y].end]
            if t.startswith('#'):
                out.edits.append(f'dropped attribute {t.strip()} on {it.path()}')


def _find_ret(it: Item):
    """(arrow_tok, ret_first_tok, ret_end_tok) for fn item `it` or None when it has no `->`.
    ret_end_tok is the index of the first token after the return type (`where` or body brace / `;`)"""
    toks = it.toks
    end = it.open if it.open is not None else it.last
    # parameters: first '(' after the name (skip generics)
    k = _next_sig(toks, it.kw + 1)       # name
    k = _next_sig(toks, k + 1)
    if toks[k].text == '<':
        depth = 0
        while True:
            t = toks[k]
            if t.text == '<':
                depth += 1
            elif t.text == '>':
                depth -= 1
                if depth == 0:
                    break
            elif t.text == '->':
                pass
            k += 1
        k = _next_sig(toks, k + 1)
    assert toks[k].text == '(', (it.path(), toks[k])
    close = match_close(toks, k)
    j = _next_sig(toks, close + 1)
    # where clause position
    w = None
    m = j
    while m < end:
        t = toks[m]
        if t.kind == 'ident' and t.text == 'where':
            w = m
            break
        if t.text in ('(', '['):
            m = match_close(toks, m)
        m += 1
    stop = w if w is not None else end
    if toks[j].text == '->':
        return (j, _next_sig(toks, j + 1), stop, close, w)
    return (None, None, stop, close, w)


def splice_fn(out: Out, it: Item, file: str, fid: str, *, ret: str = 'res',
              requires: List[Tuple[str, str]] = (), ensures: List[Tuple[str, str]] = (),
              decreases: Optional[str] = None,
              loops: Optional[Dict[int, dict]] = None,
              inserts: List[dict] = (),
              origin: Optional[Dict[str, str]] = None,
              drop_body: bool = False,
              no_unwind: bool = False,
              prefix: str = '',
              record: bool = True,
              probe: bool = False,
              inherits: List[str] = (),
              opaque: List[dict] = (),
              foreach: List[dict] = (),
              sink: str = 'writer',
              imported: Optional[str] = None,
              closures: List[dict] = (),
              loop_isolation: bool = True,
              specified: tuple = ()):
    """emit fn item `it` with contract clauses spliced between its signature and its body.
    Executable tokens of the body are emitted unchanged and in order."""
    toks = it.toks
    loops = loops or {}
    if imported and it.open is not None:
        loops, inserts, opaque, foreach = {}, (), (), ()
    arrow, r0, stop, close, w = _find_ret(it)
    end = it.open if it.open is not None else it.last
    rec = FnRecord(fid, file, it.path(), it.line_span,
                   sha(it.body if it.open is not None else ''))
    rec.origin = dict(origin or {})
    rec.inherited = list(inherits)
    rec.no_body = it.open is None or drop_body
    rec.probe = (probe is True or (isinstance(probe, (set, frozenset)) and fid in probe)) and not rec.no_body
    ensures = list(ensures)
    if rec.probe:
        ensures = ensures + [('probe', 'false')]
    if record:
        out.fns[fid] = rec
    out._cur_fn = fid
    hf = it.head_first
    start_line_out = None
    if imported and it.open is not None:
        # the body is NOT re-verified in this file: its contract is proved by unit `imported` and used here
        # as a callee contract (modular verification).  Emitted as external_body, flagged trusted.
        out.spec('    #[verifier::external_body]')
        out.chunks[-1].trusted = True
        out.imported.append(f'{fid}: contract imported from unit {imported} (body verified there, not here)')
        probe = False
        record = False
        if fid in out.fns:
            del out.fns[fid]
        rec.probe = False
        # ghost splices belong to the proof of the body, which is not done here
        loops, inserts, opaque, foreach = {}, (), (), ()
    # ---- signature
    if not loop_isolation and not (imported and it.open is not None):
        # let loops see the facts established before them (Verus isolates loop bodies by default)
        out.spec('    #[verifier::loop_isolation(false)]')
    if arrow is not None:
        sig_a = _slice(it, hf, r0)
        # return type text without trailing whitespace
        rt = _slice(it, r0, stop).rstrip()
        out.code(prefix + sig_a + f'({ret}: ' + rt + ')\n', file, _line(it, hf))
    else:
        sig_a = it.src[toks[hf].start:toks[close].end]
        out.code(prefix + sig_a + '\n', file, _line(it, hf))
    if w is not None:
        out.code(_slice(it, w, end).rstrip() + '\n', file, _line(it, w))
    # ---- clauses
    if requires:
        rec.has_requires = True
        out.spec('    requires')
        for lab, text in requires:
            out.spec(f'        {text},', label=f'{fid}#{lab}')
    if ensures:
        out.spec('    ensures')
        for lab, text in ensures:
            out.spec(f'        {text},', label=f'{fid}#{lab}')
            if lab != 'probe':
                rec.ensures.append(f'{fid}#{lab}')
    if decreases:
        out.spec(f'    decreases {decreases},', label=f'{fid}#decreases')
    if no_unwind:
        out.spec('    no_unwind')
    if it.open is None or drop_body:
        out.spec(';')
        if drop_body and it.open is not None:
            out.dropped.append(f'default body of {it.path()} ({file}:{it.line_span[0]}-{it.line_span[1]})')
        out._cur_fn = None
        return rec
    # ---- body with insertions
    ins: Dict[int, List[Tuple[str, Optional[str], str]]] = {}   # token index -> [(text, label, mode)]
    inline: Dict[int, str] = {}                                  # token index -> text inserted inline before token

    lk = body_loops(it)
    for ordinal, spec in loops.items():
        if spec.get('match'):
            # the loop is identified by a fragment of its header (robust against loops added before it); the ordinal is the fallback
            cand = [k_ for k_ in lk if spec['match'] in ' '.join(it.src[toks[k_].start:toks[loop_body_open(toks, k_)].start].split())]
            if len(cand) == 1:
                ordinal_kw = cand[0]
            elif len(cand) == 0:
                raise AnchorLost(f"{fid}: no loop whose header contains {spec['match']!r} in {file}:{it.line_span}")
            else:
                raise AnchorLost(f"{fid}: {len(cand)} loops whose header contains {spec['match']!r}")
            kw = ordinal_kw
        else:
            if ordinal >= len(lk):
                raise AnchorLost(f'{fid}: loop ordinal {ordinal} not found ({len(lk)} loops in {file}:{it.line_span})')
            kw = lk[ordinal]
        want_kw = spec.get('kind')
        if want_kw and toks[kw].text != want_kw:
            raise AnchorLost(f'{fid}: loop ordinal {ordinal} is `{toks[kw].text}`, expected `{want_kw}`')
        ob = loop_body_open(toks, kw)
        if spec.get('iter') and toks[kw].text == 'for':
            # name the ghost iterator: `for x in EXPR` -> `for x in it: EXPR`
            j = kw + 1
            while not (toks[j].kind == 'ident' and toks[j].text == 'in'):
                if toks[j].text in ('(', '['):
                    j = match_close(toks, j)
                j += 1
            inline[_next_sig(toks, j + 1)] = f"{spec['iter']}: "
        lst = []
        if spec.get('invariants'):
            lst.append(('        invariant', None))
            for lab, text in spec['invariants']:
                lst.append((f'            {text},', f'{fid}#{lab}'))
                rec.invariants.append(f'{fid}#{lab}')
        if spec.get('ensures'):
            lst.append(('        ensures', None))
            for lab, text in spec['ensures']:
                lst.append((f'            {text},', f'{fid}#{lab}'))
                rec.invariants.append(f'{fid}#{lab}')
        if spec.get('decreases'):
            lst.append((f"        decreases {spec['decreases']},", f'{fid}#loop{ordinal}-decreases'))
        ins.setdefault(ob, []).extend(lst)
        if spec.get('body_prefix'):
            ins.setdefault(ob + 1, []).append((spec['body_prefix'], None))

    body_a, body_b = toks[it.open].start, toks[it.last].end
    # ---- closure postconditions: `|p| EXPR` becomes `|p| -> (b: T) ensures E { EXPR }` (additive; Verus infers
    # nothing about a closure's result).  The anchor is the whole closure text.
    inserts = list(inserts)
    for d in (() if imported else closures):
        pat = d['at']
        k2 = pat.index('|', pat.index('|') + 1) + 1
        occs = range(it.src[body_a:body_b].count(pat)) if d.get('all') else [d.get('occurrence')]
        for oc in occs:
            ins_a = {'at': pat, 'offset': k2, 'inline': True, 'text': f" -> ({d.get('ret', 'b: bool')}) ensures {d['ensures']} {{"}
            ins_b = {'at': pat, 'offset': len(pat), 'inline': True, 'text': ' }'}
            if oc is not None:
                ins_a['occurrence'] = oc
                ins_b['occurrence'] = oc
            inserts += [ins_a, ins_b]
    for d in inserts:
        if d.get('pos') == 'body_start':
            ti = it.open + 1
        elif d.get('pos') == 'body_end':
            ti = it.last
        else:
            pat = d['at']
            if d.get('flex'):
                rx = re.compile(r'\s*'.join(re.escape(x) for x in pat.split(' ')))
                ms = list(rx.finditer(it.src[body_a:body_b]))
                occ = [m.start() for m in ms]
                plen = [m.end() - m.start() for m in ms]
            else:
                occ = [m.start() for m in re.finditer(re.escape(pat), it.src[body_a:body_b])]
                plen = [len(pat)] * len(occ)
            want = d.get('occurrence')
            if want is None and len(occ) != 1:
                raise AnchorLost(f'{fid}: text anchor {pat!r} occurs {len(occ)} times in {file}:{it.line_span}')
            if want is not None and want >= len(occ):
                raise AnchorLost(f'{fid}: text anchor {pat!r} occurrence {want} missing')
            pos = body_a + occ[want or 0]
            if 'offset' in d:
                pos += d['offset']
            elif d.get('where', 'before') == 'after':
                pos += plen[want or 0]
            # token at/after pos
            ti = next(k for k in range(it.open, it.last + 1) if toks[k].start >= pos)
        if d.get('inline'):
            inline[ti] = inline.get(ti, '') + d['text']
        else:
            ins.setdefault(ti, []).append((d['text'], f"{fid}#{d['label']}" if d.get('label') else None))

    # ---- opaque sub-expressions: a pure expression Verus cannot process is replaced by a call to a
    # contract-free external function of the stated type (its value is then arbitrary).  Only allowed
    # when the dropped tokens do not mention the output sink; every use is recorded in `dropped`.
    replace: Dict[int, Tuple[int, str]] = {}
    for d in opaque:
        pat = d['at']
        if d.get('flex'):
            # single spaces in the anchor stand for "any whitespace, possibly none"
            rx = re.compile(r'\s*'.join(re.escape(x) for x in pat.split(' ')))
            ms = list(rx.finditer(it.src[body_a:body_b]))
            occ = [m.start() for m in ms]
            lens = [m.end() - m.start() for m in ms]
        else:
            occ = [m.start() for m in re.finditer(re.escape(pat), it.src[body_a:body_b])]
            lens = [len(pat)] * len(occ)
        want = d.get('occurrence')
        if want is None and len(occ) != 1:
            raise AnchorLost(f'{fid}: opaque-expression anchor {pat!r} occurs {len(occ)} times in {file}:{it.line_span}')
        if want is not None and want >= len(occ):
            raise AnchorLost(f'{fid}: opaque-expression anchor {pat!r} occurrence {want} missing')
        a = body_a + occ[want or 0]
        b = a + lens[want or 0]
        ta = next(k for k in range(it.open, it.last + 1) if toks[k].start >= a)
        tb = next(k for k in range(it.open, it.last + 1) if toks[k].start >= b)
        while toks[tb - 1].kind in ('ws', 'comment'):
            tb -= 1
        if toks[ta].start != a or toks[tb - 1].end > b:
            raise AnchorLost(f'{fid}: opaque-expression anchor {pat!r} does not fall on token boundaries')
        if any(toks[k].kind == 'ident' and toks[k].text == sink for k in range(ta, tb)):
            raise AnchorLost(f'{fid}: opaque-expression anchor {pat!r} mentions the sink `{sink}`; it cannot be dropped')
        replace[ta] = (tb, d['call'])
        if d.get('note'):
            # a presentation rewrite with a stated meaning (not an unconstrained value)
            out.dropped.append(f"{fid}: `{' '.join(pat.split())}` ({file}:{it.line_of(a)}) presented as `{d['call']}` — {d['note']}")
        else:
            out.dropped.append(f"{fid}: expression `{' '.join(pat.split())}` ({file}:{it.line_of(a)}) replaced by an unconstrained value of type "
                               f"{d['type']} (Verus cannot process it; it does not mention the sink)")

    # ---- `ITER.for_each(|p| { BODY })` is presented to Verus as `for p in <opaque finite Vec> { BODY }`
    # (Verus has no closures capturing `&mut`; the desugaring is the definition of Iterator::for_each).
    # ITER must not mention the sink; BODY tokens are kept unchanged.
    for d in foreach:
        pat = d['at']            # text up to and including `.for_each(`
        occ = [m.start() for m in re.finditer(re.escape(pat), it.src[body_a:body_b])]
        want = d.get('occurrence')
        if want is None and len(occ) != 1:
            raise AnchorLost(f'{fid}: for_each anchor {pat!r} occurs {len(occ)} times')
        a = body_a + occ[want or 0]
        b = a + len(pat)
        ta = next(k for k in range(it.open, it.last + 1) if toks[k].start >= a)
        tp = next(k for k in range(it.open, it.last + 1) if toks[k].end >= b)      # the '(' of for_each(
        if toks[tp].text != '(':
            raise AnchorLost(f'{fid}: for_each anchor {pat!r} does not end at `(`')
        cl = match_close(toks, tp)
        k = _next_sig(toks, tp + 1)
        if toks[k].text != '|':
            raise AnchorLost(f'{fid}: for_each argument is not a closure literal')
        k2 = _next_sig(toks, k + 1)
        k3 = _next_sig(toks, k2 + 1)
        if toks[k2].kind != 'ident' or toks[k3].text != '|':
            raise AnchorLost(f'{fid}: for_each closure parameter is not a plain identifier')
        kb = _next_sig(toks, k3 + 1)
        if toks[kb].text != '{' or match_close(toks, kb) != _prev_sig(toks, cl - 1):
            raise AnchorLost(f'{fid}: for_each closure body is not a single block')
        if any(toks[x].kind == 'ident' and toks[x].text == sink for x in range(ta, kb)):
            raise AnchorLost(f'{fid}: for_each iterator expression mentions the sink')
        replace[ta] = (kb, f"for {toks[k2].text} in {d['call']} ")
        replace[cl] = (cl + 1, '')
        out.dropped.append(f"{fid}: `{' '.join(it.src[toks[ta].start:toks[tp].start].split())}(|{toks[k2].text}| {{..}})` ({file}:{it.line_of(a)}) "
                           f"presented as `for {toks[k2].text} in <unconstrained {d['type']}> {{..}}`; the closure body is kept")

    # ---- results Verus knows nothing about: (a) std methods without a contract, (b) closures without a postcondition.
    # A proof that depends on them fails for no semantic reason, so failures of THIS function are then undecided (exit 2).
    if not imported:
        dropped = [(a_, b_[0]) for a_, b_ in replace.items()]
        def _live(k_):
            return not any(a_ <= k_ < b_ for a_, b_ in dropped)
        notes = out.unconstrained.setdefault(fid, [])
        for k in range(it.open, it.last):
            t = toks[k]
            if not _live(k):
                continue
            if t.kind == 'ident' and t.text in UNSPECIFIED_STD and t.text not in specified and toks[_prev_sig(toks, k - 1)].text == '.' and toks[_next_sig(toks, k + 1)].text in ('(', '::'):
                notes.append(f'std method `.{t.text}(..)` has no contract ({file}:{it.line_of(t.start)})')
            if t.kind == 'punct' and t.text in ('|', '||') and toks[_prev_sig(toks, k - 1)].text in ('(', ',', '=', '{', ';', 'move', 'return'):
                e = k
                if t.text == '|':
                    e = k + 1
                    while e < it.last and toks[e].text != '|':
                        e += 1
                nxt = _next_sig(toks, e + 1)
                if toks[nxt].text == '->' or any(inline.get(x, '').lstrip().startswith('->') for x in range(e + 1, nxt + 1)):
                    continue
                notes.append(f'closure without a postcondition at {file}:{it.line_of(t.start)}')
        if not notes:
            del out.unconstrained[fid]

    cuts = sorted(set(ins) | set(inline) | set(replace))
    cur = it.open
    buf = ''
    buf_line = _line(it, cur)
    for c in cuts:
        if c < cur:
            raise AnchorLost(f'{fid}: overlapping splice anchors')
        buf += _slice(it, cur, c)
        cur = c
        if c in ins:
            if buf:
                out.code(buf, file, buf_line)
            for text, lab in ins[c]:
                out.spec(text, label=lab)
            buf = ''
            buf_line = _line(it, c)
        if c in inline:
            assert '\n' not in inline[c]
            buf += inline[c]
        if c in replace:
            tb, call = replace[c]
            # keep the line structure of the dropped text so that line numbers still map 1:1
            dropped_text = it.src[toks[c].start:toks[tb - 1].end]
            buf += call + '\n' * dropped_text.count('\n')
            cur = tb
            continue
    buf += it.src[toks[cur].start:body_b]
    out.code(buf + '\n', file, buf_line)
    out._cur_fn = None
    return rec
