"""Run the CURRENT generator (scratch copy of /repo's working tree) on corpus schemas and collect the emitted Rust."""
from __future__ import annotations
import os
from typing import Dict, List, Tuple
from .replay import run_test_module, scratch_repo
from .core import scratch, REPO


def module_src(pairs: List[Tuple[str, str]]) -> str:
    arr = ', '.join('(r#"%s"#, r#"%s"#)' % p for p in pairs)
    return '''
#[cfg(test)]
mod verif_l3_gen {
    use crate::reader::{WriteXml, XmlReader};
    use crate::utils::read_input_file_and_xsd_files_at_path;
    #[test]
    fn generate() {
        for (path, outp) in [%s] {
            let r = std::panic::catch_unwind(|| -> Result<Vec<u8>, String> {
                let files = read_input_file_and_xsd_files_at_path(std::path::Path::new(path)).map_err(|e| format!("read: {e}"))?;
                let doc = XmlReader::read_xml(&files).map_err(|e| format!("parse: {e}"))?;
                let mut w = Vec::new();
                doc.write_xml(&mut w).map_err(|e| format!("write: {e}"))?;
                Ok(w)
            });
            match r {
                Err(_) => println!("L3GEN|{path}|PANIC"),
                Ok(Err(e)) => println!("L3GEN|{path}|ERR|{}", e.replace('\\n', " ")),
                Ok(Ok(w)) => { std::fs::write(outp, &w).unwrap(); println!("L3GEN|{path}|OK|{}", w.len()); }
            }
        }
    }
}
''' % arr


def generate(inputs: List[str], repo: str = REPO) -> Dict[str, dict]:
    """inputs: absolute paths of start files (their sibling .xsd files are picked up by zeep itself).
    returns {input: {'status': OK|ERR|PANIC, 'out': path, 'msg': ..}}"""
    outdir = os.path.join(scratch(), 'l3out')
    os.makedirs(outdir, exist_ok=True)
    pairs = []
    for i, p in enumerate(inputs):
        pairs.append((p, os.path.join(outdir, f'g{i:03d}.rs')))
    rc, outp = run_test_module(module_src(pairs), 'verif_l3_gen::generate', repo)
    res = {}
    for line in outp.splitlines():
        if 'L3GEN|' not in line:
            continue
        line = line[line.index('L3GEN|'):]
        parts = line.split('|', 3)
        path, st = parts[1], parts[2]
        res[path] = {'status': st, 'msg': parts[3] if len(parts) > 3 else ''}
    for p, o in pairs:
        if p in res:
            res[p]['out'] = o
        else:
            res[p] = {'status': 'MISSING', 'msg': outp[-800:], 'out': o}
    return res
