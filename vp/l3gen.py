"""Run the CURRENT generator (scratch copy of /repo's working tree) on corpus schemas and collect the emitted Rust."""
from __future__ import annotations
import os
from typing import Dict, List, Tuple
from .replay import run_test_module, scratch_repo
from .core import scratch, REPO


def module_src(pairs: List[Tuple[str, str]]) -> str:
    arr = ', '.join('(r#"%s"#, r#"%s"#)' % p for p in pairs)
    return '''
#[cfg(test)]
mod verif_l3_gen {
    use crate::reader::{WriteXml, XmlReader};
    use crate::utils::read_input_file_and_xsd_files_at_path;
    #[test]
    fn generate() {
        fn generate_one(path: &str) -> Result<Vec<u8>, String> {
            let files = read_input_file_and_xsd_files_at_path(std::path::Path::new(path)).map_err(|e| format!("read: {e}"))?;
            let doc = XmlReader::read_xml(&files).map_err(|e| format!("parse: {e}"))?;
            let mut w = Vec::new();
            doc.write_xml(&mut w).map_err(|e| format!("write: {e}"))?;
            Ok(w)
        }
        for (path, outp) in [%s] {
            // generated once in THIS thread (which has generated all earlier programs) and once in a fresh thread: the output must
            // not depend on what was generated before (state kept across runs)
            let r = std::panic::catch_unwind(|| generate_one(path));
            let p2 = path.to_string();
            let fresh = std::thread::spawn(move || std::panic::catch_unwind(|| generate_one(&p2)).ok().and_then(|x| x.ok())).join().ok().flatten();
            match r {
                Err(_) => println!("L3GEN|{path}|PANIC"),
                Ok(Err(e)) => println!("L3GEN|{path}|ERR|{}", e.replace('\\n', " ")),
                Ok(Ok(w)) => {
                    std::fs::write(outp, &w).unwrap();
                    // (HashMap iteration may reorder whole operations between two runs: compared as multisets of lines)
                    let lines = |b: &Vec<u8>| { let mut v: Vec<String> = String::from_utf8_lossy(b).lines().map(|l| l.to_string()).collect(); v.sort(); v };
                    if fresh.as_ref().map(lines) != Some(lines(&w)) { println!("L3GEN|{path}|STATEFUL|{}", w.len()); } else { println!("L3GEN|{path}|OK|{}", w.len()); }
                }
            }
        }
    }
}
''' % arr


def generate(inputs: List[str], repo: str = REPO) -> Dict[str, dict]:
    """inputs: absolute paths of start files (their sibling .xsd files are picked up by zeep itself).
    returns {input: {'status': OK|ERR|PANIC, 'out': path, 'msg': ..}}"""
    outdir = os.path.join(scratch(), 'l3out')
    os.makedirs(outdir, exist_ok=True)
    pairs = []
    for i, p in enumerate(inputs):
        pairs.append((p, os.path.join(outdir, f'g{i:03d}.rs')))
    rc, outp = run_test_module(module_src(pairs), 'verif_l3_gen::generate', repo)
    res = {}
    for line in outp.splitlines():
        if 'L3GEN|' not in line:
            continue
        line = line[line.index('L3GEN|'):]
        parts = line.split('|', 3)
        path, st = parts[1], parts[2]
        res[path] = {'status': 'OK' if st == 'STATEFUL' else st, 'msg': parts[3] if len(parts) > 3 else '', 'stateful': st == 'STATEFUL'}
    for p, o in pairs:
        if p in res:
            res[p]['out'] = o
        else:
            res[p] = {'status': 'MISSING', 'msg': outp[-800:], 'out': o}
    return res
