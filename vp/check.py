"""Driver: ./check <property> [--tier quick|thorough] [--replay FILE]

exit 0  every obligation generated from /repo's current tree was discharged (KNOWN-FINDING lines may be printed)
exit 1  VIOLATION property=<id> replay=<path>[ no-failing-input-found]   (one line per failed obligation group)
exit 2  inconclusive (lost anchor, unsupported construct, solver limit, vacuity guard) — never an alarm
"""
from __future__ import annotations
import argparse
import hashlib
import json
import os
import sys
import time
from typing import Dict, List

from .core import VERIF, REPO, run_unit, UnitRun, Failure, norm, scratch
from . import registry

KF_PATH = os.path.join(VERIF, 'known_findings.json')
EVID = os.environ.get('VERIF_EVIDENCE_DIR') or os.path.join(VERIF, 'evidence')
REPLAYS = os.environ.get('VERIF_REPLAY_DIR') or os.path.join(VERIF, 'replays')


def load_known() -> List[dict]:
    try:
        return json.load(open(KF_PATH)).get('findings', [])
    except FileNotFoundError:
        return []


def match_known(pid: str, f: Failure, known: List[dict]):
    """a finding entry matches one failing obligation: same property, same obligation (exact `obligation` or
    regex `obligation_re`), and — when given — the exit text (`exit`), the failure tag (`tag`, set by the
    unit from the schema/model, e.g. which kind of type this is) and a fragment of the verifier's message"""
    import re
    for k in known:
        if k.get('property') != pid:
            continue
        if 'obligation' in k and k['obligation'] != f.obligation:
            continue
        if 'obligation_re' in k and not re.fullmatch(k['obligation_re'], f.obligation):
            continue
        if 'obligation' not in k and 'obligation_re' not in k:
            continue
        want = norm(k.get('exit', ''))
        if want and want not in f.exit_text():
            continue
        if k.get('tag') and k['tag'] != f.sub:
            continue
        if k.get('message_contains') and k['message_contains'] not in f.message:
            continue
        return k
    return None


def write_evidence(pid: str, tier: str, seed: int, level: str, coverage: dict, assumptions: List[str],
                   wall: float, violations: int):
    os.makedirs(EVID, exist_ok=True)
    ev = {'property_id': pid, 'tier': tier, 'seed': seed, 'level': level, 'coverage': coverage,
          'assumptions': assumptions, 'wall_s': round(wall, 2), 'violations': violations}
    with open(os.path.join(EVID, f'{pid}.json'), 'w') as f:
        json.dump(ev, f, indent=1, sort_keys=False)
        f.write('\n')


def main(argv=None):
    ap = argparse.ArgumentParser()
    ap.add_argument('property')
    ap.add_argument('--tier', default=os.environ.get('VERIF_TIER', 'quick'), choices=['quick', 'thorough'])
    ap.add_argument('--replay')
    a = ap.parse_args(argv)
    pid = a.property
    seed = int(os.environ.get('VERIF_SEED', '0') or 0)
    if pid not in registry.PROPS:
        print(f'property {pid} is not claimed (see MANIFEST.json not_applicable)')
        return 2
    spec = registry.PROPS[pid]
    if a.replay:
        return spec['replay'](a.replay) if spec.get('replay') else _generic_replay(pid, a.replay)
    t0 = time.time()
    known = load_known()
    runs: List[UnitRun] = []
    for U in spec['units']:
        runs.append(run_unit(U(), REPO))
    selftest = None
    if a.tier == 'thorough' and not os.environ.get('VERIF_NO_SELFTEST'):
        from .selftest import run_selftest
        selftest = run_selftest(pid)
    extra = None
    if spec.get('extra'):
        extra = spec['extra'](pid, a.tier, seed, runs)          # e.g. Kani back end, L3 pipeline; returns dict
    inconclusive = [r for r in runs if r.status == 'inconclusive']
    # obligations that failed in a function using results Verus knows nothing about (std method without contract, closure without
    # postcondition): the proof is undecided.  They become a VIOLATION only if the witness search replays a concrete failing
    # input on the real code; otherwise the check is inconclusive.
    undecided: List[Failure] = []
    for r in runs:
        for f in getattr(r, 'undecided_failures', []) or []:
            if pid in f.props:
                undecided.append(f)
    # a unit whose extraction failed (a contract anchor no longer matches the changed code) decides nothing by proof; like an
    # unprocessable function, it is handed to the replay harness of the property as ONE undecided pseudo-clause
    for r in runs:
        if r.status == 'inconclusive' and r.out is None and str(getattr(r, 'reason', '')).startswith('anchor lost') and spec.get('witness'):
            pf = Failure(r.unit, f'{r.unit}::extraction#anchor-lost', 'not verifiable: ' + r.reason[:300], [], r.reason, props=[pid])
            undecided.append(pf)
    if extra and extra.get('inconclusive'):
        inconclusive.append(extra['inconclusive'])
    # ---- obligations of this property
    obligations, failed, kf_obs = [], [], []
    fails: List[Failure] = []
    for r in runs:
        if r.out is None:
            continue
        u = next(U for U in spec['units'] if U.name == r.unit)()
        for ob in r.obligations:
            if pid in u.props_of(ob):
                obligations.append(f'{r.unit}:{ob}')
        if r.status not in ('failed',):
            continue          # failures of an inconclusive unit are not verdicts
        for f in r.failures:
            if pid in f.props:
                fails.append(f)
    if extra:
        obligations += extra.get('obligations', [])
        fails += extra.get('failures', [])
    viol: Dict[str, List[Failure]] = {}
    known_hits = []
    # a failed assertion inside a spliced ghost proof block means "the proof did not go through" (Verus then assumes it for the rest
    # of the function): that is UNDECIDED, not a verdict.  It is reported as inconclusive unless a real obligation fails as well.
    # (the same holds for the postcondition spliced onto a closure: it is part of the proof, not of the property)
    HINTY = ('#proof-hint', '#closure-postcondition')
    hints = [f for f in fails if f.obligation.endswith(HINTY)]
    fails = [f for f in fails if not f.obligation.endswith(HINTY)]
    # (round 11) a closure whose spliced postcondition no longer follows from its body (e.g. a filter predicate that was widened): the
    # clauses of that function rest on it, so they are undecided and go to the witness search - a failing input replayed on the real
    # code makes a VIOLATION, without one the check stays inconclusive
    for h in hints:
        if h.obligation.endswith('#closure-postcondition'):
            fid_ = h.obligation.rsplit('#', 1)[0]
            for ob_ in sorted({o.split(':', 1)[1] for o in obligations if o.split(':', 1)[1].startswith(fid_ + '#')}):
                if ob_.endswith(('#safety', '#proof-hint', '#closure-postcondition')) or any(u_.obligation == ob_ for u_ in undecided) or any(f_.obligation == ob_ for f_ in fails):
                    continue
                undecided.append(Failure(h.unit, ob_, 'proof undecided: the postcondition spliced onto a closure of this function does not follow from the closure body any more (' + h.message[:120] + ')',
                                         list(h.exits), h.detail, props=[pid]))
    if hints and not fails:
        class _H:
            unit = hints[0].unit
            status = 'inconclusive'
            reason = 'ghost proof block no longer verifies (needs proof maintenance, not a verdict): ' + ', '.join(sorted({h.obligation for h in hints}))
        inconclusive.append(_H())
    for f in fails:
        k = match_known(pid, f, known)
        if k:
            f.known = k
            known_hits.append((f, k))
        else:
            viol.setdefault(f.obligation, []).append(f)
    if undecided:
        groups: Dict[str, List[Failure]] = {}
        for f in undecided:
            groups.setdefault(f.obligation, []).append(f)
        open_obs = []
        for ob, fl in groups.items():
            w = None
            if spec.get('witness'):
                try:
                    w = spec['witness'](pid, fl, REPO)      # per obligation: the input must violate THAT clause
                except Exception as e:
                    w = {'error': repr(e)}
            if w and w.get('found'):
                for f in fl:
                    f.message += (' [the verifier could not process this function; decided by replaying a failing input on the real code]'
                                  if f.message.startswith('not verifiable') else
                                  ' [proof undecided (unconstrained std/closure result); decided by replaying a failing input on the real code]')
                    f.pre_witness = w
                    viol.setdefault(f.obligation, []).append(f)
                fails = fails + fl
            else:
                open_obs.append(ob)
        if open_obs and len(open_obs) == len(groups):
            class _U:
                unit = undecided[0].unit
                status = 'inconclusive'
                reason = 'undecided obligations (function uses a std method / closure without contract, and no failing input was found on the real code): ' + \
                         ', '.join(sorted(open_obs))
            inconclusive.append(_U())
        elif open_obs:
            print(f'NOTE property={pid} also undecided, no failing input found for: ' + ', '.join(sorted(open_obs)))
    failed_obs = {f'{f.unit}:{f.obligation}' for f in fails}
    kf_obs = sorted({f'{f.unit}:{f.obligation}' for f, _ in known_hits} - {f'{x.unit}:{x.obligation}' for v in viol.values() for x in v})
    # bounded stand-ins are run and can fail the check, but they are never counted among the discharged obligations
    is_bounded = lambda o: (o.split(':', 1)[1] if ':' in o else o).startswith('bounded:')
    bounded_all = [o for o in obligations if is_bounded(o) and o not in kf_obs]
    bounded_ok = [o for o in bounded_all if o not in failed_obs]
    counted = [o for o in obligations if o not in kf_obs and not is_bounded(o)]
    discharged = [o for o in counted if o not in failed_obs]

    # ---- report
    printed = set()
    for f, k in known_hits:
        line = f"KNOWN-FINDING: property={pid} {k['what']}"
        if line not in printed:
            print(line)
            printed.add(line)
    rc = 0
    if inconclusive:
        for r in inconclusive:
            print(f'INCONCLUSIVE property={pid} unit={getattr(r, "unit", "?")}: {getattr(r, "reason", r)}')
        rc = 2
    nviol = 0
    if viol:
        os.makedirs(REPLAYS, exist_ok=True)
        for ob, fl in viol.items():
            nviol += 1
            path = os.path.join(REPLAYS, f'{pid}-{hashlib.sha1(ob.encode()).hexdigest()[:10]}.json')
            witness = getattr(fl[0], 'pre_witness', None)
            if witness is None and spec.get('witness'):
                try:
                    witness = spec['witness'](pid, fl, REPO)
                except Exception as e:      # replay aid only; never masks the report
                    witness = {'error': f'witness search crashed: {e!r}'}
            rep = {'property': pid, 'failed_obligation': ob, 'unit': fl[0].unit,
                   'failures': [{'message': f.message, 'exits': f.exits, 'verus_output': f.detail} for f in fl],
                   'witness': witness,
                   'how_to_rerun': f'./check {pid} --replay {path}'}
            with open(path, 'w') as fh:
                json.dump(rep, fh, indent=1)
            tail = '' if witness and witness.get('found') else ' no-failing-input-found'
            print(f'VIOLATION property={pid} replay={path}{tail}')
            for f in fl[:3]:
                ex = f.exits[0] if f.exits else {}
                print(f"  obligation {ob}: {f.message} at {ex.get('file')}:{ex.get('line')}: {ex.get('text', '')[:100]}")
        rc = 1

    # ---- evidence
    cov = {
        'obligations': len(counted),
        'discharged': len(discharged),
        'checker_cmd': '; '.join(sorted({r.vr.cmd for r in runs if r.vr})) or 'verus <generated file> --output-json --time',
        'trusted_base': sorted({t for r in runs for t in r.trusted}) + (extra.get('trusted_base', []) if extra else []),
        'back_end': 'Verus 0.2026.09.13 (Z3)' + (extra.get('back_end', '') if extra else ''),
        'functions_under_contract': [
            {'unit': r.unit, 'fn': fid, 'file': rec.file, 'path': rec.path, 'lines': list(rec.lines), 'body_sha256': rec.body_sha256}
            for r in runs if r.out for fid, rec in r.out.fns.items() if not getattr(rec, 'no_body', False)],
        'samples': counted[:12],
        'known_finding_obligations': [{'obligation': o} for o in kf_obs] and
                                     [{'obligation': f'{f.unit}:{f.obligation}', 'known_finding': k['what']} for f, k in known_hits][:20],
        'failed_obligations': sorted(failed_obs - set(kf_obs)),
        'solver_ms': sum(r.vr.smt_ms() for r in runs if r.vr),
        'verus_functions_verified': sum(r.vr.verified for r in runs if r.vr),
        'vacuity_probe': {r.unit: r.probe for r in runs},
        'extraction_edits': sorted({e for r in runs if r.out for e in r.out.edits}),
        'extraction_dropped': sorted({e for r in runs if r.out for e in r.out.dropped}),
        'uncontracted_functions': sorted({e for r in runs if r.out for e in r.out.uncontracted}),
        'unit_status': {r.unit: (r.status + (': ' + r.reason if r.reason else '')) for r in runs},
        'scope': spec.get('scope', ''),
    }
    def _kind(o):
        lab = o.split(':', 1)[1] if ':' in o else o
        if lab.startswith(('shape:', 'sig:')):
            return 'verus_front_end (rustc type check of schema-derived ghost contracts against the emitted code; not SMT)'
        if lab.startswith(('wire:', 'ns:', 'order:', 'decl:', 'index:')):
            return 'attribute/index text comparison (no solver; emitted yaserde attributes are invisible to any verifier front end)'
        if lab.startswith('bounded:') or lab.startswith('kani:'):
            return 'bounded (Kani/CBMC or bounded run of the real code; never counted as proved)'
        return 'verus_smt (deductive proof, Z3)'
    byk = {}
    for o in counted:
        byk[_kind(o)] = byk.get(_kind(o), 0) + 1
    cov['obligations_by_deciding_step'] = byk
    if bounded_all:
        cov['bounded_checks_not_counted_as_proved'] = {'run': len(bounded_all), 'passed': len(bounded_ok), 'labels': bounded_all[:40]}
    if extra:
        cov.update(extra.get('coverage', {}))
    if selftest is not None:
        cov['selftest'] = selftest
    level = spec.get('level', 'proof')
    if not counted or len(discharged) == 0:
        # schema wants >= 1; an inconclusive run still writes what it has
        cov['explanation'] = 'no obligation could be generated on this run (inconclusive)'
    write_evidence(pid, a.tier, seed, level, cov, spec.get('assumptions', []), time.time() - t0, nviol)
    if rc == 0 and len(discharged) != len(counted):
        print(f'INCONCLUSIVE property={pid}: {len(counted) - len(discharged)} obligations undecided')
        rc = 2
    if rc == 0 and selftest and selftest.get('undetected'):
        print(f"INCONCLUSIVE property={pid}: self-test: seeded change(s) {selftest['undetected']} are no longer detected (the checker, not the code, is at fault)")
        rc = 2
    if rc == 0:
        print(f'OK property={pid} tier={a.tier} obligations={len(counted)} discharged={len(discharged)} '
              f'known_findings={len(kf_obs)}' + (f' bounded_checks={len(bounded_ok)}/{len(bounded_all)}(not counted)' if bounded_all else '') +
              f' wall={time.time() - t0:.1f}s')
    return rc


def _generic_replay(pid, path):
    rep = json.load(open(path))
    print(json.dumps(rep, indent=1)[:4000])
    print('re-running the check for this property:')
    return main([pid])


if __name__ == '__main__':
    sys.exit(main())
