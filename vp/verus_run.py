"""Run Verus on one generated file and turn its output into structured results."""
from __future__ import annotations
import json
import os
import re
import subprocess
import time
from dataclasses import dataclass, field
from typing import Dict, List, Optional

VERUS = os.environ.get('VERIF_VERUS', 'verus')

# messages that mean "an obligation was not discharged" (as opposed to: the file does not compile)
VERIF_FAIL = re.compile(
    r'^(postcondition not satisfied|precondition not satisfied|assertion failed|'
    r'invariant not satisfied.*|loop invariant not.*|possible arithmetic underflow/overflow|'
    r'possible division by zero|decreases not satisfied.*|could not prove termination.*|'
    r'possible bit shift underflow/overflow|unreachable\(\) might be reachable|'
    r'possible attempt to .*|cannot show invariant holds.*|'
    r'failed precondition|possible panic.*|panic.*reachable.*|index out of bounds.*|'
    r'possible out-of-bounds.*|recommendation not met.*|unable to prove post-condition of closure.*|'
    r'.*closure.*(requires|ensures).*not.*)$')
RLIMIT = re.compile(r'(Resource limit|rlimit|resource limit).*exceed|exceeded.*rlimit|timed out', re.I)
ABORT = re.compile(r'^aborting due to')


@dataclass
class Diag:
    level: str
    message: str
    spans: List[dict]
    rendered: str
    children: List[dict] = field(default_factory=list)


@dataclass
class VerusResult:
    path: str
    rc: int
    wall_s: float
    json: Optional[dict]
    diags: List[Diag]
    stdout: str
    stderr: str
    cmd: str

    @property
    def verified(self) -> int:
        return (self.json or {}).get('verification-results', {}).get('verified', 0)

    @property
    def errors(self) -> int:
        return (self.json or {}).get('verification-results', {}).get('errors', 0)

    @property
    def success(self) -> bool:
        return bool((self.json or {}).get('verification-results', {}).get('success', False))

    def functions(self) -> Dict[str, dict]:
        out = {}
        try:
            for m in self.json['times-ms']['smt']['smt-run-module-times']:
                for f in m.get('function-breakdown', []):
                    out[f['function']] = f
        except (KeyError, TypeError):
            pass
        return out

    def smt_ms(self) -> int:
        try:
            return int(self.json['times-ms']['smt']['smt-run'])
        except (KeyError, TypeError):
            return 0

    def fail_diags(self) -> List[Diag]:
        return [d for d in self.diags if d.level == 'error' and VERIF_FAIL.match(d.message)]

    def rlimit_diags(self) -> List[Diag]:
        return [d for d in self.diags if RLIMIT.search(d.message) or RLIMIT.search(d.rendered or '')]

    def other_errors(self) -> List[Diag]:
        """errors that are neither failed obligations nor the trailing 'aborting' line:
        the generated file does not compile / uses something the prelude has no contract for"""
        return [d for d in self.diags if d.level == 'error' and not VERIF_FAIL.match(d.message)
                and not ABORT.match(d.message) and not RLIMIT.search(d.message)]


def run_verus(path: str, *, multiple_errors: int = 8, rlimit: Optional[float] = None,
              threads: Optional[int] = None, timeout: int = 900, extra: Optional[List[str]] = None) -> VerusResult:
    cmd = [VERUS, os.path.basename(path), '--output-json', '--time', '--multiple-errors', str(multiple_errors),
           '--triggers-mode', 'silent', '--error-format=json', '--no-report-long-running']
    if rlimit:
        cmd += ['--rlimit', str(rlimit)]
    if threads:
        cmd += ['--num-threads', str(threads)]
    if extra:
        cmd += extra
    t0 = time.time()
    try:
        p = subprocess.run(cmd, cwd=os.path.dirname(path), capture_output=True, text=True, timeout=timeout)
        rc, so, se = p.returncode, p.stdout, p.stderr
    except subprocess.TimeoutExpired as e:
        rc, so, se = 124, (e.stdout or b'').decode(errors='replace') if isinstance(e.stdout, bytes) else (e.stdout or ''), 'TIMEOUT'
    wall = time.time() - t0
    js = None
    try:
        i = so.index('{')
        js = json.loads(so[i:])
    except (ValueError, json.JSONDecodeError):
        js = None
    diags = []
    for line in se.splitlines():
        line = line.strip()
        if not line.startswith('{'):
            continue
        try:
            d = json.loads(line)
        except json.JSONDecodeError:
            continue
        if d.get('$message_type') != 'diagnostic':
            continue
        diags.append(Diag(d.get('level', ''), d.get('message', ''), d.get('spans', []), d.get('rendered') or '',
                          d.get('children', [])))
    return VerusResult(path, rc, wall, js, diags, so, se, ' '.join(cmd))
