"""Small Rust-aware lexer and item parser used to extract items *by anchor* from /repo.

It understands exactly what is needed to find item boundaries without being fooled by
strings, raw strings, byte strings, char literals vs lifetimes, line/block (nested) comments
and nested delimiters.  It never rewrites tokens: every span returned is a byte-exact slice of
the source file.
"""
from __future__ import annotations
import re
from dataclasses import dataclass, field
from typing import List, Optional

IDENT_START = re.compile(r'[A-Za-z_\u0080-\U0010ffff]')
IDENT_CONT = re.compile(r'[A-Za-z0-9_\u0080-\U0010ffff]')


@dataclass
class Tok:
    kind: str   # ws comment doc string char lifetime ident number punct
    text: str
    start: int
    end: int


class LexError(Exception):
    pass


def lex(src: str) -> List[Tok]:
    toks: List[Tok] = []
    i, n = 0, len(src)
    while i < n:
        c = src[i]
        if c.isspace():
            j = i + 1
            while j < n and src[j].isspace():
                j += 1
            toks.append(Tok('ws', src[i:j], i, j)); i = j; continue
        if src.startswith('//', i):
            j = src.find('\n', i)
            j = n if j < 0 else j
            text = src[i:j]
            kind = 'doc' if (text.startswith('///') and not text.startswith('////')) or text.startswith('//!') else 'comment'
            toks.append(Tok(kind, text, i, j)); i = j; continue
        if src.startswith('/*', i):
            depth, j = 1, i + 2
            while j < n and depth:
                if src.startswith('/*', j):
                    depth += 1; j += 2
                elif src.startswith('*/', j):
                    depth -= 1; j += 2
                else:
                    j += 1
            if depth:
                raise LexError('unterminated block comment')
            text = src[i:j]
            kind = 'doc' if (text.startswith('/**') and not text.startswith('/***') and len(text) > 4) or text.startswith('/*!') else 'comment'
            toks.append(Tok(kind, text, i, j)); i = j; continue
        # raw strings / byte strings / raw identifiers
        m = re.match(r'(b|c)?r(#*)"', src[i:i + 300])
        if m and (i == 0 or not IDENT_CONT.match(src[i - 1])):
            hashes = m.group(2)
            close = '"' + hashes
            j = src.find(close, i + m.end())
            if j < 0:
                raise LexError('unterminated raw string')
            j += len(close)
            toks.append(Tok('string', src[i:j], i, j)); i = j; continue
        if c == '"' or (c in 'bc' and i + 1 < n and src[i + 1] == '"' and (i == 0 or not IDENT_CONT.match(src[i - 1]))):
            j = i + (1 if c == '"' else 2)
            while j < n and src[j] != '"':
                j += 2 if src[j] == '\\' else 1
            if j >= n:
                raise LexError('unterminated string')
            j += 1
            toks.append(Tok('string', src[i:j], i, j)); i = j; continue
        if c == "'" or (c == 'b' and i + 1 < n and src[i + 1] == "'" and (i == 0 or not IDENT_CONT.match(src[i - 1]))):
            k = i + (1 if c == "'" else 2)
            # char literal or lifetime?
            if k < n and src[k] == '\\':
                j = k + 2
                while j < n and src[j] != "'":
                    j += 1
                j += 1
                toks.append(Tok('char', src[i:j], i, j)); i = j; continue
            if k + 1 < n and src[k + 1] == "'" and src[k] != "'":
                j = k + 2
                toks.append(Tok('char', src[i:j], i, j)); i = j; continue
            if c == "'" and k < n and IDENT_START.match(src[k]):
                j = k + 1
                while j < n and IDENT_CONT.match(src[j]):
                    j += 1
                toks.append(Tok('lifetime', src[i:j], i, j)); i = j; continue
            raise LexError(f'bad quote at {i}')
        if IDENT_START.match(c):
            j = i + 1
            while j < n and IDENT_CONT.match(src[j]):
                j += 1
            # raw identifier r#name
            if src[i:j] == 'r' and j + 1 < n and src[j] == '#' and IDENT_START.match(src[j + 1]):
                j += 2
                while j < n and IDENT_CONT.match(src[j]):
                    j += 1
            toks.append(Tok('ident', src[i:j], i, j)); i = j; continue
        if c.isdigit():
            j = i + 1
            while j < n and (IDENT_CONT.match(src[j]) or (src[j] == '.' and j + 1 < n and src[j + 1].isdigit())):
                j += 1
            toks.append(Tok('number', src[i:j], i, j)); i = j; continue
        # punctuation: keep multi-char operators that matter to us together
        for op in ('->', '=>', '::', '..=', '...', '..', '&&', '||', '==', '!=', '<=', '>=', '+=', '-=', '*=', '/='):
            if src.startswith(op, i):
                toks.append(Tok('punct', op, i, i + len(op))); i += len(op); break
        else:
            toks.append(Tok('punct', c, i, i + 1)); i += 1
    return toks


OPEN = {'(': ')', '[': ']', '{': '}'}
CLOSE = {')', ']', '}'}


def sig(toks: List[Tok]) -> List[int]:
    """indices of significant tokens (no whitespace, no comments; doc comments are kept out too)"""
    return [k for k, t in enumerate(toks) if t.kind not in ('ws', 'comment', 'doc')]


def match_close(toks: List[Tok], k: int) -> int:
    """toks[k] is an opening delimiter; return index of its matching close"""
    assert toks[k].text in OPEN, toks[k]
    depth = 0
    for j in range(k, len(toks)):
        t = toks[j]
        if t.kind != 'punct':
            continue
        if t.text in OPEN:
            depth += 1
        elif t.text in CLOSE:
            depth -= 1
            if depth == 0:
                return j
    raise LexError('unbalanced delimiter at %d' % toks[k].start)


ITEM_KW = {'fn', 'struct', 'enum', 'union', 'trait', 'impl', 'mod', 'use', 'const', 'static', 'type', 'macro_rules', 'extern'}
QUALS = {'pub', 'async', 'unsafe', 'default', 'const', 'extern'}


@dataclass
class Item:
    kind: str                 # fn struct enum trait impl mod use const static type macro_rules macro_call inner_attr other
    name: str                 # ident for named items; normalised header for impl
    src: str                  # whole file text
    toks: List[Tok]
    first: int                # token index of first token incl. attributes / doc comments
    kw: int                   # token index of the defining keyword
    open: Optional[int]       # token index of the body '{' (None for ';' items)
    last: int                 # token index of last token ('}' or ';')
    children: List['Item'] = field(default_factory=list)
    parent: Optional['Item'] = None
    attrs: List[tuple] = field(default_factory=list)   # (first_tok, last_tok) of outer attributes / doc comments

    @property
    def start(self) -> int: return self.toks[self.first].start
    @property
    def end(self) -> int: return self.toks[self.last].end
    @property
    def text(self) -> str: return self.src[self.start:self.end]
    @property
    def header(self) -> str:
        """text from the first non-attribute token up to (not including) the body brace / semicolon"""
        a = self.toks[self.head_first].start
        b = self.toks[self.open if self.open is not None else self.last].start
        return self.src[a:b]
    @property
    def head_first(self) -> int:
        k = self.first
        if self.attrs:
            k = self.attrs[-1][1] + 1
        while self.toks[k].kind in ('ws', 'comment'):
            k += 1
        return k
    @property
    def body(self) -> str:
        """text strictly between the body braces"""
        assert self.open is not None
        return self.src[self.toks[self.open].end:self.toks[self.last].start]
    @property
    def norm_header(self) -> str:
        return ' '.join(t.text for t in self.toks[self.head_first:(self.open if self.open is not None else self.last)]
                        if t.kind not in ('ws', 'comment', 'doc'))
    def line_of(self, pos: int) -> int:
        return self.src.count('\n', 0, pos) + 1
    @property
    def line_span(self): return (self.line_of(self.start), self.line_of(self.end))
    def path(self) -> str:
        p = []
        it = self
        while it is not None:
            p.append(f'{it.kind} {it.name}')
            it = it.parent
        return ' :: '.join(reversed(p))


def _next_sig(toks, k):
    while k < len(toks) and toks[k].kind in ('ws', 'comment', 'doc'):
        k += 1
    return k


def parse_items(src: str, toks: Optional[List[Tok]] = None, lo: int = 0, hi: Optional[int] = None,
                parent: Optional[Item] = None) -> List[Item]:
    if toks is None:
        toks = lex(src)
    if hi is None:
        hi = len(toks)
    items: List[Item] = []
    k = lo
    while True:
        # skip ws / plain comments
        while k < hi and toks[k].kind in ('ws', 'comment'):
            k += 1
        if k >= hi:
            break
        first = k
        attrs = []
        # outer attributes and doc comments
        while k < hi:
            t = toks[k]
            if t.kind == 'doc' and not (t.text.startswith('//!') or t.text.startswith('/*!')):
                attrs.append((k, k)); k += 1
            elif t.kind == 'doc':
                # inner doc comment: item of its own
                break
            elif t.text == '#' and toks[_next_sig(toks, k + 1)].text == '[':
                j = match_close(toks, _next_sig(toks, k + 1))
                attrs.append((k, j)); k = j + 1
            elif t.kind in ('ws', 'comment'):
                k += 1
            else:
                break
        if k >= hi:
            break
        t = toks[k]
        if t.kind == 'doc':
            items.append(Item('inner_attr', '', src, toks, k, k, None, k, parent=parent)); k += 1; continue
        if t.text == '#' and toks[_next_sig(toks, k + 1)].text == '!':
            j = _next_sig(toks, _next_sig(toks, k + 1) + 1)
            j = match_close(toks, j)
            items.append(Item('inner_attr', '', src, toks, k, k, None, j, parent=parent)); k = j + 1; continue
        # qualifiers
        q = k
        while True:
            q = _next_sig(toks, q)
            tq = toks[q]
            if tq.kind == 'ident' and tq.text == 'pub':
                q = _next_sig(toks, q + 1)
                if toks[q].text == '(':
                    q = match_close(toks, q) + 1
                continue
            if tq.kind == 'ident' and tq.text in ('async', 'unsafe', 'default'):
                q += 1; continue
            if tq.kind == 'ident' and tq.text == 'const':
                nx = toks[_next_sig(toks, q + 1)]
                if nx.text in ('fn', 'unsafe', 'async', 'extern'):
                    q += 1; continue
                break
            if tq.kind == 'ident' and tq.text == 'extern':
                nx = _next_sig(toks, q + 1)
                if toks[nx].kind == 'string':
                    nx2 = _next_sig(toks, nx + 1)
                    if toks[nx2].text == 'fn':
                        q = nx + 1; continue
                break
            break
        kw = q
        tk = toks[kw]
        kind = tk.text if tk.kind == 'ident' else 'other'

        def scan_to(stop_chars, start):
            """scan from token index start to the first token in stop_chars at delimiter depth 0"""
            j = start
            while j < hi:
                tt = toks[j]
                if tt.kind == 'punct':
                    if tt.text in stop_chars:
                        return j
                    if tt.text in OPEN:
                        j = match_close(toks, j)
                j += 1
            raise LexError('item runs off the end at %d' % toks[start].start)

        def named(after):
            j = _next_sig(toks, after + 1)
            return toks[j].text, j

        if kind == 'fn':
            name, j = named(kw)
            e = scan_to({'{', ';'}, j)
            if toks[e].text == '{':
                it = Item('fn', name, src, toks, first, kw, e, match_close(toks, e), parent=parent, attrs=attrs)
            else:
                it = Item('fn', name, src, toks, first, kw, None, e, parent=parent, attrs=attrs)
        elif kind in ('struct', 'union', 'enum'):
            name, j = named(kw)
            e = scan_to({'{', ';'}, j)
            if toks[e].text == '{':
                it = Item(kind, name, src, toks, first, kw, e, match_close(toks, e), parent=parent, attrs=attrs)
            else:
                it = Item(kind, name, src, toks, first, kw, None, e, parent=parent, attrs=attrs)
        elif kind in ('trait', 'impl', 'mod'):
            if kind == 'impl':
                name = None
            else:
                name, j = named(kw)
            e = scan_to({'{', ';'}, kw + 1)
            if toks[e].text == '{':
                cl = match_close(toks, e)
                it = Item(kind, name or '', src, toks, first, kw, e, cl, parent=parent, attrs=attrs)
                it.children = parse_items(src, toks, e + 1, cl, parent=it)
            else:
                it = Item(kind, name or '', src, toks, first, kw, None, e, parent=parent, attrs=attrs)
            if kind == 'impl':
                nm = it.norm_header
                nm = re.sub(r'^(unsafe )?impl ?', '', nm)
                nm = re.sub(r' ?,$', '', nm)
                it.name = nm
        elif kind in ('use', 'const', 'static', 'type', 'extern'):
            name = ''
            if kind in ('const', 'static', 'type'):
                name, j = named(kw)
                if name == 'mut':
                    name, j = named(j)
            e = scan_to({';'}, kw + 1) if kind != 'extern' else scan_to({';', '{'}, kw + 1)
            if toks[e].text == '{':
                e = match_close(toks, e)
            it = Item(kind, name, src, toks, first, kw, None, e, parent=parent, attrs=attrs)
        elif kind == 'macro_rules':
            j = _next_sig(toks, kw + 1)      # '!'
            name, j = named(j)
            e = _next_sig(toks, j + 1)
            cl = match_close(toks, e)
            op = e if toks[e].text == '{' else None
            if toks[e].text != '{':
                cl = scan_to({';'}, cl + 1)
            it = Item('macro_rules', name, src, toks, first, kw, op, cl, parent=parent, attrs=attrs)
        else:
            # macro invocation  name!( ... );  or path::name! { ... }
            j = kw
            name_parts = []
            while toks[j].kind == 'ident' or toks[j].text == '::':
                name_parts.append(toks[j].text); j = _next_sig(toks, j + 1)
            if toks[j].text == '!':
                e = _next_sig(toks, j + 1)
                cl = match_close(toks, e)
                if toks[e].text != '{':
                    cl = scan_to({';'}, cl + 1)
                it = Item('macro_call', ''.join(name_parts), src, toks, first, kw, None, cl, parent=parent, attrs=attrs)
            else:
                raise LexError('cannot parse item at byte %d: %r' % (tk.start, src[tk.start:tk.start + 60]))
        items.append(it)
        k = it.last + 1
    return items


def walk(items: List[Item]):
    for it in items:
        yield it
        yield from walk(it.children)


def parse_file(path: str) -> List[Item]:
    with open(path, encoding='utf-8') as f:
        src = f.read()
    return parse_items(src)


def find(items: List[Item], kind: str, name_re: str, within: Optional[str] = None) -> List[Item]:
    """all items of `kind` whose name fully matches regex `name_re`; `within` is a regex that must
    match (search) the parent's path()."""
    out = []
    for it in walk(items):
        if it.kind == kind and re.fullmatch(name_re, it.name):
            if within is None or (it.parent is not None and re.search(within, it.parent.path())):
                out.append(it)
    return out


# ----------------------------------------------------------------------------------------------
# helpers used by the splicer

def body_loops(it: Item) -> List[int]:
    """token indices of `for` / `while` / `loop` keywords inside the body of fn item `it`, in source
    order (closures' and nested blocks' loops included; nested fn items excluded)"""
    assert it.kind == 'fn' and it.open is not None
    out = []
    k = it.open + 1
    toks = it.toks
    while k < it.last:
        t = toks[k]
        if t.kind == 'ident' and t.text == 'fn':
            # nested fn: skip it
            j = k
            while toks[j].text not in ('{', ';'):
                if toks[j].text in OPEN:
                    j = match_close(toks, j)
                j += 1
            if toks[j].text == '{':
                k = match_close(toks, j) + 1
                continue
        if t.kind == 'ident' and t.text in ('for', 'while', 'loop'):
            # `for<'a>` in types is not a loop
            nx = toks[_next_sig(toks, k + 1)]
            if not (t.text == 'for' and nx.text == '<'):
                out.append(k)
        k += 1
    return out


def loop_body_open(toks: List[Tok], kw: int) -> int:
    """index of the '{' that opens the body of the loop whose keyword is toks[kw]"""
    j = kw + 1
    while True:
        t = toks[j]
        if t.kind == 'punct' and t.text == '{':
            return j
        if t.kind == 'punct' and t.text in ('(', '['):
            j = match_close(toks, j)
        j += 1
