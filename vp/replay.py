"""Replay against the real code: a scratch copy of /repo's working tree with a generated test module
appended as a child of `zeep_lib::model` (so private items are reachable), run with cargo test."""
from __future__ import annotations
import os
import re
import shutil
import subprocess
import time
from typing import Optional, Tuple

from .core import scratch, REPO

_copy = None


def scratch_repo(repo: str = REPO) -> str:
    """one scratch copy of the working tree per run (without target/ and .git)"""
    global _copy
    if _copy is None:
        dst = os.path.join(scratch(), 'repo')
        subprocess.run(['rsync', '-a', '--delete', '--exclude', '/target', '--exclude', '.git', repo.rstrip('/') + '/', dst + '/'],
                       check=True)
        _copy = dst
    return _copy


def run_test_module(module_src: str, test_filter: str, repo: str = REPO, timeout: int = 900,
                    host_file: str = 'zeep-lib/src/model/mod.rs') -> Tuple[int, str]:
    """append `module_src` (a `#[cfg(test)] mod ... {}` text) to host_file in the scratch copy, run the
    named test with --nocapture and return (rc, output). The scratch file is restored afterwards."""
    root = scratch_repo(repo)
    host = os.path.join(root, host_file)
    with open(host, encoding='utf-8') as f:
        orig = f.read()
    try:
        with open(host, 'w', encoding='utf-8') as f:
            f.write(orig + '\n' + module_src + '\n')
        env = dict(os.environ)
        env['CARGO_TARGET_DIR'] = os.path.join(scratch(), 'target')
        env['CARGO_NET_OFFLINE'] = 'true'
        # own process group: on timeout the test binary (a grandchild) is killed too, and what it printed so far is kept
        import signal
        import tempfile
        with tempfile.TemporaryFile(mode='w+', dir=scratch()) as fo:
            p = subprocess.Popen(['cargo', 'test', '--offline', '-p', 'zeep-lib', '--lib', test_filter, '--', '--nocapture', '--test-threads', '1'],
                                 cwd=root, env=env, stdout=fo, stderr=subprocess.STDOUT, text=True, start_new_session=True)
            try:
                rc = p.wait(timeout=timeout)
            except subprocess.TimeoutExpired:
                try:
                    os.killpg(p.pid, signal.SIGKILL)
                except ProcessLookupError:
                    pass
                p.wait()
                rc = 124
            fo.seek(0)
            outp = fo.read()
        return rc, outp + ('\nTIMEOUT after %d s' % timeout if rc == 124 else '')
    finally:
        with open(host, 'w', encoding='utf-8') as f:
            f.write(orig)
