"""Random schema sets inside the supported subset (DESIGN 2.1), for the thorough tier of the L3 checks.
Deterministic in the seed.  Names come from a vocabulary whose Pascal/snake spelling is unambiguous."""
from __future__ import annotations
import os
import random
from typing import Dict, List, Tuple

WORDS = ['order', 'line', 'item', 'price', 'code', 'note', 'owner', 'state', 'label', 'total', 'batch', 'route', 'stamp', 'origin',
         'target', 'weight', 'colour', 'shape', 'point', 'level', 'group', 'entry', 'value', 'share', 'grade', 'phase', 'token', 'trace']
NS_WORDS = ['alpha', 'bravo', 'cargo', 'delta', 'ember', 'fjord', 'gamma']          # distinct three-letter stems
STR_B = ['string', 'normalizedString', 'anyURI', 'date', 'dateTime', 'language', 'hexBinary']
NUM_B = ['int', 'long', 'short', 'byte', 'unsignedInt', 'unsignedLong', 'unsignedShort', 'unsignedByte', 'integer', 'positiveInteger']
OTHER_B = ['boolean', 'float', 'double', 'decimal', 'time', 'duration', 'base64Binary', 'negativeInteger', 'nonNegativeInteger', 'nonPositiveInteger']
XS = 'http://www.w3.org/2001/XMLSchema'


def style(rng, words: List[str], kind: str) -> str:
    s = rng.choice(['pascal', 'camel', 'snake', 'pascal', 'camel', 'snake', 'acronym', 'digit'])
    if s == 'acronym':          # URLType / IDList: an all-capitals run in front
        return words[0][:3].upper() + ''.join(w.capitalize() for w in words[1:])
    if s == 'digit':            # Address2line / v2Code
        return words[0].capitalize() + str(rng.randint(1, 9)) + ''.join(words[1:])
    if s == 'pascal':
        return ''.join(w.capitalize() for w in words)
    if s == 'camel':
        return words[0] + ''.join(w.capitalize() for w in words[1:])
    return '_'.join(words)


class Gen:
    def __init__(self, seed: int):
        self.seed = seed
        self.rng = random.Random(seed)

    def fresh(self, used: set, n=2, kind='t') -> str:
        rng = self.rng
        for _ in range(200):
            ws = rng.sample(WORDS, rng.choice([1, 2, n]))
            name = style(rng, ws, kind)
            key = ''.join(ws)
            if key not in used:
                used.add(key)
                return name
        raise RuntimeError('vocabulary exhausted')

    def program(self, outdir: str, wsdl: bool) -> str:
        rng = self.rng
        nns = rng.choice([1, 2, 2, 3])
        nss = rng.sample(NS_WORDS, nns)
        # URI shapes (own RNG, so the schema structure for a seed does not depend on it); all keep distinct 3-letter stems,
        # because colliding abbreviations across imported files are the known finding of C10
        urng = random.Random(self.seed * 7919 + 13)
        shape = urng.choice(['plain', 'plain', 'urn', 'dotted', 'dashed', 'deep'])
        own_tns = urng.random() < 0.4
        uris = {w: {'plain': f'http://verif.example/{w}', 'urn': f'urn:verif:example-{w}', 'dotted': f'http://verif.example/{w}.schema.v1',
                    'dashed': f'http://verif.example/svc-{w}', 'deep': f'https://verif.example/a/b/2024/{w}'}[shape] for w in nss}
        # dependency order: namespace k may reference namespaces > k (imports form a DAG from the start file)
        types: Dict[str, List[dict]] = {w: [] for w in nss}
        all_types: List[Tuple[str, dict]] = []
        used = {w: set() for w in nss}
        for w in reversed(nss):
            later = [x for x in nss if nss.index(x) > nss.index(w)]
            # simple types
            for _ in range(rng.randint(1, 3)):
                name = self.fresh(used[w])
                if rng.random() < 0.5:
                    f = {}
                    if rng.random() < 0.6:
                        f['minLength'] = rng.randint(0, 3)
                    if rng.random() < 0.6:
                        f['maxLength'] = rng.randint(3, 12)
                    if not f and rng.random() < 0.5:
                        f['length'] = rng.randint(1, 8)
                    enum = rng.sample(['red', 'green', 'blue', 'x', 'long value', 'Ünï'], rng.randint(1, 3)) if rng.random() < 0.3 else None
                    t = {'kind': 'simple', 'name': name, 'base': ('xs', rng.choice(STR_B)), 'facets': f, 'enum': enum}
                else:
                    f = {}
                    lo = rng.choice([-2147483648, -100, -1, 0, 1, 5])
                    if rng.random() < 0.7:
                        f[rng.choice(['minInclusive', 'minExclusive'])] = lo
                    if rng.random() < 0.7:
                        f[rng.choice(['maxInclusive', 'maxExclusive'])] = lo + rng.choice([1, 10, 1000, 2147483647 - max(lo, 0) if lo >= 0 else 100])
                    t = {'kind': 'simple', 'name': name, 'base': ('xs', rng.choice(NUM_B)), 'facets': f, 'enum': None}
                types[w].append(t)
                all_types.append((w, t))
            # one derived simple type without own facets (own facets are the known finding of C07)
            simples = [(x, t) for x, t in all_types if t['kind'] == 'simple' and (x == w or x in later)]
            if simples and rng.random() < 0.5:
                bx, bt = rng.choice(simples)
                t = {'kind': 'simple', 'name': self.fresh(used[w]), 'base': (bx, bt['name']), 'facets': {}, 'enum': None}
                types[w].append(t)
                all_types.append((w, t))
            # complex types, each may use only types created earlier (acyclic), declaration order is shuffled afterwards
            for _ in range(rng.randint(2, 4)):
                name = self.fresh(used[w])
                avail = [(x, t) for x, t in all_types if x == w or x in later]
                fused = set()
                base = None
                cands = [(x, t) for x, t in avail if t['kind'] == 'complex']
                if cands and rng.random() < 0.4:
                    base = rng.choice(cands)
                    fused |= set(base[1]['allnames'])

                def member():
                    nm = self.fresh(fused, kind='f')
                    r = rng.random()
                    if r < 0.45 or not avail:
                        ty = ('xs', rng.choice(STR_B + NUM_B + OTHER_B))
                    else:
                        x, t = rng.choice(avail)
                        ty = (x, t['name'])
                    occ = rng.choice([{}, {}, {'minOccurs': '0'}, {'maxOccurs': 'unbounded'}, {'maxOccurs': str(rng.choice([2, 7, 300]))},
                                      {'minOccurs': '0', 'maxOccurs': 'unbounded'}, {'minOccurs': '1', 'maxOccurs': '1'}])
                    return {'name': nm, 'type': ty, 'occ': occ}

                def particles(depth):
                    out = []
                    for _ in range(rng.randint(1, 3)):
                        r = rng.random()
                        if depth < 2 and r < 0.15:
                            out.append({'group': 'sequence', 'occ': rng.choice([{}, {'minOccurs': '0'}, {'maxOccurs': 'unbounded'}, {'minOccurs': '0', 'maxOccurs': 'unbounded'},
                                                                                 {'minOccurs': '0', 'maxOccurs': '3'}]), 'items': particles(depth + 1)})
                        elif depth < 2 and r < 0.3:
                            # a branch is an element or a nested sequence of (required) elements
                            items = [member() if rng.random() < 0.7 else {'group': 'sequence', 'occ': {}, 'items': [member() for _ in range(rng.randint(1, 2))]}
                                     for _ in range(rng.randint(2, 3))]
                            out.append({'group': 'choice', 'occ': rng.choice([{}, {}, {'maxOccurs': 'unbounded'}, {'minOccurs': '0', 'maxOccurs': '2'}]), 'items': items})
                        else:
                            out.append(member())
                    return out
                body = particles(0)
                attrs = [{'name': self.fresh(fused, kind='f'), 'type': ('xs', rng.choice(STR_B + NUM_B[:4] + ['boolean'])),
                          'use': rng.choice([None, 'optional', 'required'])} for _ in range(rng.choice([0, 0, 1, 2]))]
                t = {'kind': 'complex', 'name': name, 'base': (base[0], base[1]['name']) if base else None, 'body': body, 'attrs': attrs,
                     'allnames': sorted(fused)}
                types[w].append(t)
                all_types.append((w, t))
        # global elements
        elements: Dict[str, List[dict]] = {w: [] for w in nss}
        for w in nss:
            cx = [t for t in types[w] if t['kind'] == 'complex']
            for t in rng.sample(cx, min(len(cx), rng.randint(1, 2))):
                elements[w].append({'name': self.fresh(used[w]), 'type': (w, t['name'])})
        # ---- write
        os.makedirs(outdir, exist_ok=True)

        def q(ty, pfx):
            return ('xs:' if ty[0] == 'xs' else pfx[ty[0]] + ':') + ty[1]

        def occs(o):
            return ''.join(f' {k}="{v}"' for k, v in o.items())

        def render_particles(items, pfx, ind):
            s = ''
            for it in items:
                if 'group' in it:
                    s += f'{ind}<xs:{it["group"]}{occs(it["occ"])}>\n{render_particles(it["items"], pfx, ind + " ")}{ind}</xs:{it["group"]}>\n'
                else:
                    s += f'{ind}<xs:element name="{it["name"]}" type="{q(it["type"], pfx)}"{occs(it["occ"])}/>\n'
            return s

        def schema_text(w, inline=False):
            later = [x for x in nss if nss.index(x) > nss.index(w)]
            pfx = {x: f'n{nss.index(x)}' for x in nss}
            if own_tns and not inline:
                pfx[w] = 'tns'          # every file calls its own namespace `tns` (the same prefix means another URI per file)
            decl = ' '.join(f'xmlns:{pfx[x]}="{uris[x]}"' for x in [w] + later)
            s = f'<xs:schema xmlns:xs="{XS}" elementFormDefault="qualified" targetNamespace="{uris[w]}" {decl}>\n'
            for x in later:
                s += f' <xs:import namespace="{uris[x]}" schemaLocation="{x}.xsd"/>\n'
            comps = []
            for t in types[w]:
                if t['kind'] == 'simple':
                    c = f' <xs:simpleType name="{t["name"]}"><xs:restriction base="{q(t["base"], pfx)}">'
                    for k, v in t['facets'].items():
                        c += f'<xs:{k} value="{v}"/>'
                    for e in (t['enum'] or []):
                        c += f'<xs:enumeration value="{e}"/>'
                    c += '</xs:restriction></xs:simpleType>\n'
                else:
                    inner = f'  <xs:sequence>\n{render_particles(t["body"], pfx, "   ")}  </xs:sequence>\n'
                    at = ''.join(f'  <xs:attribute name="{a["name"]}" type="{q(a["type"], pfx)}"' + (f' use="{a["use"]}"' if a['use'] else '') + '/>\n' for a in t['attrs'])
                    if t['base']:
                        c = f' <xs:complexType name="{t["name"]}"><xs:complexContent><xs:extension base="{q(t["base"], pfx)}">\n{inner}{at} </xs:extension></xs:complexContent></xs:complexType>\n'
                    else:
                        c = f' <xs:complexType name="{t["name"]}">\n{inner}{at} </xs:complexType>\n'
                comps.append(c)
            for e in elements[w]:
                comps.append(f' <xs:element name="{e["name"]}" type="{q(e["type"], pfx)}"/>\n')
            rng.shuffle(comps)           # declared before or after use
            return s + ''.join(comps) + '</xs:schema>\n'
        for w in nss[1:]:
            open(os.path.join(outdir, f'{w}.xsd'), 'w', encoding='utf-8').write(schema_text(w))
        w0 = nss[0]
        if not wsdl or not elements[w0]:
            p = os.path.join(outdir, 'main.xsd')
            open(p, 'w', encoding='utf-8').write(schema_text(w0))
            return p
        # WSDL wrapper around the start schema
        els = [(w, e['name']) for w in nss for e in elements[w]]
        pfx = {x: f'n{nss.index(x)}' for x in nss}
        decl = ' '.join(f'xmlns:{pfx[x]}="{uris[x]}"' for x in nss)
        ops = []
        msgs = ''
        pt = ''
        bd = ''
        opnames = set()
        for k in range(rng.randint(1, 3)):
            on = style(rng, rng.sample(['get', 'send', 'find', 'list', 'status', 'report', 'detail'], 2), 'o')
            if on.lower().replace('_', '') in opnames:
                continue
            opnames.add(on.lower().replace('_', ''))
            bi = rng.choice(els)
            bo = rng.choice(els)
            heads = rng.sample(els, min(len(els), rng.choice([0, 0, 1, 2, 3])))
            oheads = rng.sample(els, min(len(els), rng.choice([0, 0, 0, 1, 2])))
            # part names: the usual "parameters"/"result", the SAME name in both directions, or the element's own name
            nstyle = rng.choice(['classic', 'same', 'element'])
            ipn = {'classic': 'parameters', 'same': 'parameters', 'element': bi[1]}[nstyle]
            opn = {'classic': 'result', 'same': 'parameters', 'element': bo[1]}[nstyle]
            hname = (lambda j: f'h{j}') if nstyle != 'same' else (lambda j: f'header{j}')
            ohname = (lambda j: f'oh{j}') if nstyle != 'same' else (lambda j: f'header{j}')
            if nstyle == 'element':
                # part names must be unique within a message
                used = {ipn}
                ihn = []
                for j, h in enumerate(heads):
                    ihn.append(h[1] if h[1] not in used else f'h{j}')
                    used.add(ihn[-1])
                used = {opn}
                ohn = []
                for j, h in enumerate(oheads):
                    ohn.append(h[1] if h[1] not in used else f'oh{j}')
                    used.add(ohn[-1])
            else:
                ihn = [hname(j) for j in range(len(heads))]
                ohn = [ohname(j) for j in range(len(oheads))]
            one_way = rng.random() < 0.08
            iparts = f'<wsdl:part name="{ipn}" element="{pfx[bi[0]]}:{bi[1]}"/>' + ''.join(f'<wsdl:part name="{ihn[j]}" element="{pfx[h[0]]}:{h[1]}"/>' for j, h in enumerate(heads))
            oparts = f'<wsdl:part name="{opn}" element="{pfx[bo[0]]}:{bo[1]}"/>' + ''.join(f'<wsdl:part name="{ohn[j]}" element="{pfx[h[0]]}:{h[1]}"/>' for j, h in enumerate(oheads))
            if rng.random() < 0.3:      # header parts declared before the body part
                iparts = ''.join(f'<wsdl:part name="{ihn[j]}" element="{pfx[h[0]]}:{h[1]}"/>' for j, h in enumerate(heads)) + f'<wsdl:part name="{ipn}" element="{pfx[bi[0]]}:{bi[1]}"/>'
            msgs += f'<wsdl:message name="M{k}In">{iparts}</wsdl:message>\n' + ('' if one_way else f'<wsdl:message name="M{k}Out">{oparts}</wsdl:message>\n')
            pt += f' <wsdl:operation name="{on}"><wsdl:input message="tns:M{k}In"/>' + ('' if one_way else f'<wsdl:output message="tns:M{k}Out"/>') + '</wsdl:operation>\n'
            hb = ''.join(f'<soap:header message="tns:M{k}In" part="{ihn[j]}" use="literal"/>' for j in range(len(heads)))
            ohb = ''.join(f'<soap:header message="tns:M{k}Out" part="{ohn[j]}" use="literal"/>' for j in range(len(oheads)))
            ip = f' parts="{ipn}"' if rng.random() < 0.5 else ''
            op = f' parts="{opn}"' if rng.random() < 0.5 else ''
            bd += (f' <wsdl:operation name="{on}"><soap:operation soapAction="http://verif.example/act/{k}"/><wsdl:input>' + (f'{hb}<soap:body{ip} use="literal"/>' if rng.random() < 0.5 else f'<soap:body{ip} use="literal"/>{hb}') + '</wsdl:input>'
                   + ('' if one_way else '<wsdl:output>' + (f'{ohb}<soap:body{op} use="literal"/>' if rng.random() < 0.5 else f'<soap:body{op} use="literal"/>{ohb}') + '</wsdl:output>') + '</wsdl:operation>\n')
        svc = style(rng, rng.sample(WORDS, 2), 't')
        svc = svc if rng.random() < 0.4 else (''.join(x.capitalize() for x in svc.replace('_', ' ').split()) if '_' in svc else svc[0].upper() + svc[1:])
        # the definitions often have a namespace of their own, different from the one of the inline schema
        # (not together with `tns` re-declared by the inline schema for ANOTHER URI: zeep's prefix table is flat, an inner xmlns
        # that shadows an outer prefix is a limitation noted in DESIGN 8.6, outside what the corpus claims)
        wsdl_ns = uris[w0] if (own_tns or urng.random() < 0.5) else 'http://verif.example/ws'
        txt = (f'<wsdl:definitions xmlns:wsdl="http://schemas.xmlsoap.org/wsdl/" xmlns:soap="http://schemas.xmlsoap.org/wsdl/soap/" xmlns:xs="{XS}" '
               f'xmlns:tns="{wsdl_ns}" {decl} targetNamespace="{wsdl_ns}">\n<wsdl:types>\n{schema_text(w0)}</wsdl:types>\n{msgs}'
               f'<wsdl:portType name="Port">\n{pt}</wsdl:portType>\n<wsdl:binding name="Bind" type="tns:Port"><soap:binding style="document" transport="http://schemas.xmlsoap.org/soap/http"/>\n{bd}</wsdl:binding>\n'
               f'<wsdl:service name="{svc}Service"><wsdl:port name="p" binding="tns:Bind"><soap:address location="https://svc.example.org/{w0}/v{rng.randint(1, 9)}{rng.choice(["", "", "?ws=1&amp;v=2", "/index.php?op=x"])}"/></wsdl:port></wsdl:service>\n</wsdl:definitions>\n')
        p = os.path.join(outdir, 'main.wsdl')
        open(p, 'w', encoding='utf-8').write(txt)
        return p


def generate(root: str, seed: int, count: int) -> List[str]:
    out = []
    for k in range(count):
        g = Gen(seed * 100003 + k)
        d = os.path.join(root, f'g{k:03d}')
        out.append(g.program(d, wsdl=(k % 3 == 2)))
    return out
