"""Independent reader of the supported schema subset (DESIGN.md 2.1 / 2.2).

Written from the XSD / WSDL 1.1 specifications, NOT from zeep's code: it only knows what a schema
declares.  It is the oracle side of the L3 translation validation.  Anything outside the subset makes
`load()` raise Unsupported, and the program is then skipped (never an alarm).
"""
from __future__ import annotations
import os
import re
import xml.etree.ElementTree as ET
from dataclasses import dataclass, field
from typing import Dict, List, Optional, Tuple

XS = 'http://www.w3.org/2001/XMLSchema'
WSDL = 'http://schemas.xmlsoap.org/wsdl/'
SOAP = 'http://schemas.xmlsoap.org/wsdl/soap/'

# DESIGN 2.2: reference carriers (None = any signed integer type of at least 32 bits)
BUILTIN = {
    'byte': 'i8', 'short': 'i16', 'int': 'i32', 'long': 'i64',
    'unsignedByte': 'u8', 'unsignedShort': 'u16', 'unsignedInt': 'u32', 'unsignedLong': 'u64',
    'float': 'f32', 'double': 'f64', 'decimal': 'f64', 'boolean': 'bool',
    'string': 'String', 'normalizedString': 'String', 'base64Binary': 'String', 'hexBinary': 'String',
    'anyURI': 'String', 'date': 'String', 'dateTime': 'String', 'time': 'String', 'language': 'String',
    'duration': 'String',
    'integer': None, 'negativeInteger': None, 'nonNegativeInteger': None, 'nonPositiveInteger': None,
    'positiveInteger': None,
}
WIDE_INT = ('i32', 'i64', 'i128')
STRINGLIKE = {k for k, v in BUILTIN.items() if v == 'String'}
NUMERIC = {k for k, v in BUILTIN.items() if v is None or (v[0] in 'iu' and v != 'bool')}


class Unsupported(Exception):
    pass


@dataclass
class TypeRef:
    builtin: Optional[str] = None          # XSD builtin local name
    ns: Optional[str] = None               # named type: namespace URI
    name: Optional[str] = None             # named type: local name


@dataclass
class Member:
    kind: str                              # element | attribute
    name: str
    type: TypeRef
    occ: str                               # req | opt | vec
    ns: Optional[str]                      # namespace of the schema that declared it
    ref: bool = False


@dataclass
class ComplexType:
    ns: str
    name: str
    members: List[Member] = field(default_factory=list)    # own members, declaration order
    base: Optional[Tuple[str, str]] = None
    anonymous_of_element: bool = False


@dataclass
class SimpleType:
    ns: str
    name: str
    base: TypeRef = None
    facets: Dict[str, int] = field(default_factory=dict)   # minInclusive.. maxLength
    enum: Optional[List[str]] = None


@dataclass
class GlobalElement:
    ns: str
    name: str
    type: Optional[TypeRef] = None         # None: anonymous complex type (a ComplexType with the element's name exists)


@dataclass
class Operation:
    name: str
    input_headers: List[Tuple[str, str, str]] = field(default_factory=list)   # (part name, element ns, element name)
    input_body: Tuple[str, str, str] = None
    output_headers: List[Tuple[str, str, str]] = field(default_factory=list)
    output_body: Optional[Tuple[str, str, str]] = None
    soap_action: Optional[str] = None


@dataclass
class Model:
    path: str
    complex: Dict[Tuple[str, str], ComplexType] = field(default_factory=dict)
    simple: Dict[Tuple[str, str], SimpleType] = field(default_factory=dict)
    elements: Dict[Tuple[str, str], GlobalElement] = field(default_factory=dict)
    namespaces: List[str] = field(default_factory=list)     # target namespaces, first-met order
    service: Optional[str] = None
    address: Optional[str] = None
    operations: List[Operation] = field(default_factory=list)
    order: List[Tuple[str, Tuple[str, str]]] = field(default_factory=list)   # ('complex'|'simple'|'element', key) in reading order

    def all_members(self, key, _seen=None) -> List[Member]:
        """members of a complex type: base members first (XSD extension), then own"""
        _seen = _seen or set()
        if key in _seen:
            raise Unsupported('cyclic extension')
        ct = self.complex[key]
        out = []
        if ct.base is not None:
            if ct.base not in self.complex:
                raise Unsupported(f'extension base {ct.base} is not a complex type of the schema set')
            out += self.all_members(ct.base, _seen | {key})
        return out + list(ct.members)


def _parse(path):
    """ElementTree with a per-element prefix map"""
    nsmaps = {}
    stack = [{}]
    pending = {}
    root = None
    for ev, x in ET.iterparse(path, events=('start-ns', 'end-ns', 'start', 'end')):
        if ev == 'start-ns':
            pending[x[0]] = x[1]
        elif ev == 'start':
            m = dict(stack[-1])
            m.update(pending)
            pending = {}
            stack.append(m)
            nsmaps[x] = m
            if root is None:
                root = x
        elif ev == 'end':
            stack.pop()
    return root, nsmaps


def _local(tag):
    return tag.split('}', 1)[1] if tag.startswith('{') else tag


def _nsof(tag):
    return tag[1:].split('}', 1)[0] if tag.startswith('{') else None


class Reader:
    def __init__(self, start: str):
        self.m = Model(start)
        self.dir = os.path.dirname(start)
        self.seen_files = set()

    # -------------------------------------------------------------------------------- helpers
    def qname(self, el, nsmaps, text) -> Tuple[Optional[str], str]:
        if ':' in text:
            p, l = text.split(':', 1)
            if p not in nsmaps[el]:
                raise Unsupported(f'undeclared prefix {p}')
            return nsmaps[el][p], l
        return nsmaps[el].get('', None), text

    def typeref(self, el, nsmaps, text, tns) -> TypeRef:
        ns, l = self.qname(el, nsmaps, text)
        if ns == XS:
            if l not in BUILTIN:
                raise Unsupported(f'builtin {l} outside the mapped set')
            return TypeRef(builtin=l)
        if ns is None:
            raise Unsupported(f'unqualified type reference {text}')
        return TypeRef(ns=ns, name=l)

    @staticmethod
    def occ_of(el, enclosing: List[ET.Element]) -> str:
        def mx(e):
            v = e.get('maxOccurs')
            return v is not None and v != '1' and v != '0'
        def mn(e):
            return e.get('minOccurs') == '0'
        for v in [el.get('minOccurs'), el.get('maxOccurs')] + [x for e in enclosing for x in (e.get('minOccurs'), e.get('maxOccurs'))]:
            if v is not None and not re.fullmatch(r'\d+|unbounded', v):
                raise Unsupported('bad occurrence')
        if mx(el) or any(mx(e) for e in enclosing):
            return 'vec'
        if mn(el) or any(mn(e) for e in enclosing) or any(_local(e.tag) == 'choice' for e in enclosing):
            return 'opt'
        return 'req'

    # -------------------------------------------------------------------------------- schema
    def particles(self, group, nsmaps, tns, enclosing) -> List[Member]:
        out = []
        for ch in group:
            t = _local(ch.tag)
            if _nsof(ch.tag) != XS:
                raise Unsupported('foreign element in content model')
            if t == 'annotation':
                continue
            if t == 'element':
                out.append(self.local_element(ch, nsmaps, tns, enclosing))
            elif t in ('sequence', 'choice'):
                out += self.particles(ch, nsmaps, tns, enclosing + [ch])
            else:
                raise Unsupported(f'particle {t}')
        return out

    def local_element(self, el, nsmaps, tns, enclosing) -> Member:
        occ = self.occ_of(el, enclosing)
        if el.get('ref'):
            ns, l = self.qname(el, nsmaps, el.get('ref'))
            if ns is None or ns == XS:
                raise Unsupported('ref into no/xs namespace')
            # typed after the referenced global element (resolved later)
            return Member('element', l, TypeRef(ns=ns, name='\0ref:' + l), occ, ns, ref=True)
        name = el.get('name')
        if not name or len(el) and any(_local(c.tag) != 'annotation' for c in el):
            raise Unsupported('local element without name / with anonymous type')
        if not el.get('type'):
            raise Unsupported('local element without type')
        return Member('element', name, self.typeref(el, nsmaps, el.get('type'), tns), occ, tns)

    def attribute(self, el, nsmaps, tns) -> Member:
        if el.get('ref') or not el.get('name') or not el.get('type'):
            raise Unsupported('attribute form outside subset')
        use = el.get('use')
        if use not in (None, 'optional', 'required'):
            raise Unsupported('attribute use')
        return Member('attribute', el.get('name'), self.typeref(el, nsmaps, el.get('type'), tns),
                      'req' if use == 'required' else 'opt', tns)

    def complex_body(self, ct_el, nsmaps, tns, ct: ComplexType):
        kids = [c for c in ct_el if _local(c.tag) != 'annotation']
        content = [c for c in kids if _local(c.tag) != 'attribute']
        attrs = [c for c in kids if _local(c.tag) == 'attribute']
        if len(content) > 1:
            raise Unsupported('more than one content particle')
        if content:
            c = content[0]
            t = _local(c.tag)
            if t == 'sequence':
                ct.members += self.particles(c, nsmaps, tns, [c])
            elif t == 'complexContent':
                ext = [e for e in c if _local(e.tag) != 'annotation']
                if len(ext) != 1 or _local(ext[0].tag) != 'extension':
                    raise Unsupported('complexContent without single extension')
                e = ext[0]
                bns, bl = self.qname(e, nsmaps, e.get('base') or '')
                if bns is None or bns == XS:
                    raise Unsupported('extension of builtin')
                ct.base = (bns, bl)
                ek = [x for x in e if _local(x.tag) != 'annotation']
                econtent = [x for x in ek if _local(x.tag) != 'attribute']
                if len(econtent) > 1:
                    raise Unsupported('extension with several particles')
                if econtent:
                    if _local(econtent[0].tag) not in ('sequence', 'choice'):
                        raise Unsupported('extension content is neither a sequence nor a choice')
                    ct.members += self.particles(econtent[0], nsmaps, tns, [econtent[0]])
                for a in ek:
                    if _local(a.tag) == 'attribute':
                        ct.members.append(self.attribute(a, nsmaps, tns))
            else:
                raise Unsupported(f'top-level {t} in complexType')
        for a in attrs:
            ct.members.append(self.attribute(a, nsmaps, tns))

    def schema(self, sch, nsmaps, fname):
        tns = sch.get('targetNamespace')
        if not tns:
            raise Unsupported('schema without targetNamespace')
        if sch.get('elementFormDefault') != 'qualified':
            raise Unsupported('elementFormDefault is not qualified')
        if tns not in self.m.namespaces:
            self.m.namespaces.append(tns)
        for ch in sch:
            if _nsof(ch.tag) != XS:
                raise Unsupported('foreign top-level element')
            t = _local(ch.tag)
            if t == 'annotation':
                continue
            if t == 'import':
                loc = ch.get('schemaLocation')
                if not loc or '/' in loc:
                    raise Unsupported('import without sibling schemaLocation')
                self.file(os.path.join(self.dir, loc))
            elif t == 'complexType':
                name = ch.get('name')
                ct = ComplexType(tns, name)
                self.complex_body(ch, nsmaps, tns, ct)
                self.add('complex', (tns, name), ct)
            elif t == 'simpleType':
                self.add('simple', (tns, ch.get('name')), self.simple(ch, nsmaps, tns))
            elif t == 'element':
                name = ch.get('name')
                kids = [c for c in ch if _local(c.tag) != 'annotation']
                if ch.get('type') and not kids:
                    self.add('element', (tns, name), GlobalElement(tns, name, self.typeref(ch, nsmaps, ch.get('type'), tns)))
                elif len(kids) == 1 and _local(kids[0].tag) == 'complexType' and not ch.get('type'):
                    ct = ComplexType(tns, name, anonymous_of_element=True)
                    self.complex_body(kids[0], nsmaps, tns, ct)
                    self.add('element', (tns, name), GlobalElement(tns, name, None))
                    if (tns, name) in self.m.complex:
                        raise Unsupported('element and complexType share a name')
                    self.m.complex[(tns, name)] = ct
                else:
                    raise Unsupported('global element form outside subset')
            else:
                raise Unsupported(f'top-level {t}')

    def add(self, kind, key, val):
        d = {'complex': self.m.complex, 'simple': self.m.simple, 'element': self.m.elements}[kind]
        if key in d or (kind != 'element' and (key in self.m.complex or key in self.m.simple)):
            raise Unsupported(f'duplicate component {key}')
        d[key] = val
        self.m.order.append((kind, key))

    def simple(self, st, nsmaps, tns) -> SimpleType:
        kids = [c for c in st if _local(c.tag) != 'annotation']
        if len(kids) != 1 or _local(kids[0].tag) != 'restriction' or not kids[0].get('base'):
            raise Unsupported('simpleType that is not a restriction')
        r = kids[0]
        s = SimpleType(tns, st.get('name'), self.typeref(r, nsmaps, r.get('base'), tns))
        for f in r:
            t = _local(f.tag)
            if t == 'annotation':
                continue
            v = f.get('value')
            if v is None:
                raise Unsupported('facet without value')
            if t in ('minInclusive', 'maxInclusive', 'minExclusive', 'maxExclusive'):
                if not re.fullmatch(r'-?\d+', v) or not (-2**31 <= int(v) < 2**31):
                    raise Unsupported('numeric facet outside i32')
                s.facets[t] = int(v)
            elif t in ('length', 'minLength', 'maxLength'):
                if not re.fullmatch(r'\d+', v):
                    raise Unsupported('length facet')
                s.facets[t] = int(v)
            elif t == 'enumeration':
                s.enum = (s.enum or []) + [v]
            else:
                raise Unsupported(f'facet {t}')
        return s

    # ---------------------------------------------------------------------------------- files
    def file(self, path):
        if path in self.seen_files:
            return
        self.seen_files.add(path)
        if not os.path.exists(path):
            raise Unsupported(f'missing file {path}')
        root, nsmaps = _parse(path)
        if root.tag == f'{{{XS}}}schema':
            self.schema(root, nsmaps, path)
        elif root.tag == f'{{{WSDL}}}definitions':
            self.wsdl(root, nsmaps)
        else:
            raise Unsupported('root element')

    def wsdl(self, root, nsmaps):
        tns = root.get('targetNamespace')
        types = root.findall(f'{{{WSDL}}}types')
        if len(types) != 1 or len([c for c in types[0]]) != 1:
            raise Unsupported('wsdl:types must hold exactly one schema')
        self.schema(types[0][0], nsmaps, self.m.path)
        msgs = {}
        for m in root.findall(f'{{{WSDL}}}message'):
            parts = []
            for p in m.findall(f'{{{WSDL}}}part'):
                if not p.get('element'):
                    raise Unsupported('part without element')
                ens, el = self.qname(p, nsmaps, p.get('element'))
                parts.append((p.get('name'), ens, el))
            msgs[m.get('name')] = parts
        pts = root.findall(f'{{{WSDL}}}portType')
        bds = root.findall(f'{{{WSDL}}}binding')
        svs = root.findall(f'{{{WSDL}}}service')
        if len(pts) != 1 or len(bds) != 1 or len(svs) != 1:
            raise Unsupported('need exactly one portType, binding, service')
        pt_ops = {}
        for op in pts[0].findall(f'{{{WSDL}}}operation'):
            i = op.find(f'{{{WSDL}}}input')
            o = op.find(f'{{{WSDL}}}output')
            if i is None:
                raise Unsupported('operation without input')
            im = self.qname(i, nsmaps, i.get('message'))[1]
            om = self.qname(o, nsmaps, o.get('message'))[1] if o is not None else None
            pt_ops[op.get('name')] = (im, om)
        b = bds[0]
        sb = b.find(f'{{{SOAP}}}binding')
        if sb is None or sb.get('style', 'document') != 'document':
            raise Unsupported('not a document SOAP 1.1 binding')
        for op in b.findall(f'{{{WSDL}}}operation'):
            name = op.get('name')
            if name not in pt_ops:
                raise Unsupported('binding operation not in portType')
            im, om = pt_ops[name]
            o = Operation(name)
            so = op.find(f'{{{SOAP}}}operation')
            if so is not None and so.get('soapAction'):
                o.soap_action = so.get('soapAction')

            def side(el, msgname):
                heads, body = [], None
                for h in el.findall(f'{{{SOAP}}}header'):
                    if h.get('use') != 'literal':
                        raise Unsupported('header use')
                    hm = self.qname(h, nsmaps, h.get('message'))[1]
                    hp = [p for p in msgs.get(hm, []) if p[0] == h.get('part')]
                    if len(hp) != 1:
                        raise Unsupported('header part not found')
                    heads.append(hp[0])
                bd = el.find(f'{{{SOAP}}}body')
                if bd is None or bd.get('use') != 'literal':
                    raise Unsupported('body use')
                parts = msgs.get(msgname, [])
                if bd.get('parts'):
                    bp = [p for p in parts if p[0] == bd.get('parts')]
                else:
                    # WSDL 1.1: all parts not bound to headers form the body; the subset wants exactly one
                    bp = [p for p in parts if p not in heads]
                if len(bp) != 1:
                    raise Unsupported('body must be exactly one part')
                return heads, bp[0]
            bi = op.find(f'{{{WSDL}}}input')
            if bi is None:
                raise Unsupported('binding operation without input')
            o.input_headers, o.input_body = side(bi, im)
            bo = op.find(f'{{{WSDL}}}output')
            if om is not None and bo is not None:
                o.output_headers, o.output_body = side(bo, om)
            elif (om is None) != (bo is None):
                raise Unsupported('output present in only one of portType/binding')
            self.m.operations.append(o)
        s = svs[0]
        ports = s.findall(f'{{{WSDL}}}port')
        if len(ports) != 1:
            raise Unsupported('need one port')
        ad = ports[0].find(f'{{{SOAP}}}address')
        if ad is None or not re.match(r'https?://', ad.get('location', '')):
            raise Unsupported('address')
        self.m.service = s.get('name')
        self.m.address = ad.get('location')

    def finish(self) -> Model:
        m = self.m
        # resolve element refs and check every reference
        for ct in m.complex.values():
            for mem in ct.members:
                if mem.ref:
                    key = (mem.type.ns, mem.name)
                    if key not in m.elements:
                        raise Unsupported(f'ref to unknown element {key}')
                    ge = m.elements[key]
                    mem.type = ge.type if ge.type is not None else TypeRef(ns=key[0], name=key[1])
                t = mem.type
                if t.builtin is None and (t.ns, t.name) not in m.complex and (t.ns, t.name) not in m.simple:
                    raise Unsupported(f'reference to unknown type {(t.ns, t.name)}')
            if ct.base is not None and ct.base not in m.complex:
                raise Unsupported('unknown extension base')
        for st in m.simple.values():
            b = st.base
            if b.builtin is None and (b.ns, b.name) not in m.simple:
                raise Unsupported('simple type restricting a non-simple type')
        for ge in m.elements.values():
            t = ge.type
            if t is not None and t.builtin is None and (t.ns, t.name) not in m.complex and (t.ns, t.name) not in m.simple:
                raise Unsupported('element of unknown type')
        for op in m.operations:
            for p in op.input_headers + [op.input_body] + op.output_headers + ([op.output_body] if op.output_body else []):
                if (p[1], p[2]) not in m.elements:
                    raise Unsupported(f'part element {p} unknown')
        return m


def load(path: str) -> Model:
    r = Reader(path)
    try:
        r.file(path)
        return r.finish()
    except ET.ParseError as e:
        raise Unsupported(f'not well-formed: {e}')


# ---- naming (DESIGN 2.2): PascalCase type names, snake_case member names -----------------------
def words(name: str) -> List[str]:
    parts = re.split(r'[^A-Za-z0-9]+', name)
    out = []
    for p in parts:
        if not p:
            continue
        out += re.findall(r'[A-Z]+(?=[A-Z][a-z])|[A-Z]?[a-z]+|[A-Z]+|[0-9]+', p)
    return out


def _trim_right(s: str) -> str:
    while s and not s[-1].isalnum():
        s = s[:-1]
    return s


def pascal(name: str) -> str:
    """PascalCase as the documented dependency (Inflector 0.11.4, cases/case/mod.rs::to_case_camel_like with the options of
    to_pascal_case) defines it, transcribed from its source: a new word starts after a separator, after a digit, and at a
    lower->upper transition; inside a word every letter is lower-cased (so an acronym run URLType becomes Urltype)."""
    new_word, last_char, found_real, out = True, ' ', False, []
    for ch in _trim_right(name):
        if not ch.isalnum() and found_real:
            new_word = True
        elif not found_real and not ch.isalnum():
            continue
        elif ch.isnumeric():
            found_real = True
            new_word = True
            out.append(ch)
        elif new_word or (last_char.islower() and ch.isupper() and last_char != ' '):
            found_real = True
            new_word = False
            out.append(ch.upper() if ch.isascii() else ch)
        else:
            found_real = True
            last_char = ch
            out.append(ch.lower() if ch.isascii() else ch)
    return ''.join(out)


def snake(name: str) -> str:
    """snake_case per Inflector's to_case_snake_like(s, "_", "lower") (ASCII names: its byte/char index mix-up does not matter).
    Its `char_is_uppercase(c)` is `c == c.to_ascii_uppercase()`, which is also true of digits: line1 -> line_1."""
    first, out = True, []
    t = _trim_right(name)
    for i, ch in enumerate(t):
        if not ch.isalnum():
            if not first:
                first = True
                out.append('_')
        elif (not first) and not ('a' <= ch <= 'z') and ((name[i + 1] if i + 1 < len(name) else 'A').islower() or (name[i - 1] if i >= 1 else 'A').islower()):
            first = False
            out.append('_' + (ch.lower() if ch.isascii() else ch))
        else:
            first = False
            out.append(ch.lower() if ch.isascii() else ch)
    return ''.join(out)


def simple_name(name: str) -> bool:
    """names whose Pascal/snake spelling is unambiguous: letters only words, no digit/acronym edge cases"""
    return bool(re.fullmatch(r'[A-Za-z][a-z]*([A-Z][a-z]+|_[a-z]+)*', name))
