"""L3: assemble a Verus input from (a) the text EMITTED by the current generator for one schema set and
(b) specifications derived from the schema by the independent reader (model.py).

What is decided here, per program:
  C07  every emitted `impl restrictions::CheckRestrictions for X` meets the trait contract w.r.t. a
       schema-derived `sat`/`dom` (SMT obligations, all values of X)
  C02  shape contracts: a ghost function destructures each expected struct exhaustively with the
       expected member names and types (rustc front end inside Verus; a type error in a shape chunk
       is the disagreement), plus "no undeclared struct" (index comparison)
  C05  constructor postcondition (port address), one method per operation with the expected signature,
       envelope shapes
"""
from __future__ import annotations
import json
import os
import re
from typing import Dict, List, Optional, Tuple

from ..rustlex import parse_items, Item, walk, lex
from ..splice import Out, AnchorLost, splice_fn, emit_verbatim, _line
from ..core import VERIF, read_sections, trusted_chunk, Inconclusive
from ..units.hc import HelpersContent, open_container, close_container, child, C
from ..units.r import prelude, HEAD, TAIL
from . import model as M

KW = json.load(open(os.path.join(VERIF, 'contracts', 'keywords.json')))
MUST = set(KW['strict'] + KW['reserved'])


class Disagreement(Exception):
    """the emitted text does not have the shape the schema calls for (decided without Verus)"""
    def __init__(self, prop, what, detail=''):
        super().__init__(what)
        self.prop, self.what, self.detail = prop, what, detail


# ------------------------------------------------------------------------------------------------
# index of the emitted file

def present_or_else(src: str):
    """PRESENTATION of emitted text for Verus (round 11): `X.or_else(|| E)` with a plain identifier X and a parameterless closure becomes
    `(match X { Some(v__) => Some(v__), None => E })` - the definition of Option::or_else (E is evaluated only for None in both forms).
    Verus infers nothing about a closure without a postcondition, so the original form leaves every obligation of the function undecided.
    Only the part of the file before the helper modules is touched.  Returns (text, line numbers of the rewritten occurrences)."""
    from ..rustlex import lex, match_close, _next_sig
    cut = src.find('pub mod error {')
    head = src if cut < 0 else src[:cut]
    toks = lex(head)

    def prev_sig(k):
        k -= 1
        while k >= 0 and toks[k].kind in ('ws', 'comment', 'doc'):
            k -= 1
        return k
    reps = []
    for k, t in enumerate(toks):
        if t.kind == 'ident' and t.text == 'or_else':
            d, o = prev_sig(k), _next_sig(toks, k + 1)
            r = prev_sig(d) if d >= 0 else -1
            rr = prev_sig(r) if r >= 0 else -1
            if d < 0 or r < 0 or toks[d].text != '.' or toks[r].kind != 'ident' or toks[o].text != '(' or (rr >= 0 and toks[rr].text in ('.', '::')):
                continue
            b = _next_sig(toks, o + 1)
            if toks[b].text == '||':
                body_from = _next_sig(toks, b + 1)
            elif toks[b].text == '|' and toks[_next_sig(toks, b + 1)].text == '|':
                body_from = _next_sig(toks, _next_sig(toks, b + 1) + 1)
            else:
                continue
            c = match_close(toks, o)
            reps.append((toks[r].start, toks[c].end, toks[r].text, head[toks[body_from].start:toks[c].start], head.count('\n', 0, toks[r].start) + 1))
    if not reps:
        return src, []
    out, cur = [], 0
    for a, e, recv, body, _ in reps:
        if a < cur:
            continue
        out.append(head[cur:a])
        out.append(f'(match {recv} {{ Some(v__) => Some(v__), None => {body} }})')
        cur = e
    out.append(head[cur:])
    return ''.join(out) + (src[cut:] if cut >= 0 else ''), [r[4] for r in reps]


class Emitted:
    def __init__(self, path: str):
        self.path = path
        self.src = open(path, encoding='utf-8').read()
        self.src, self.presented_or_else = present_or_else(self.src)
        self.items = parse_items(self.src)
        self.mods: Dict[str, Item] = {}
        self.helper_mods: Dict[str, Item] = {}
        self.root: List[Item] = []
        for it in self.items:
            if it.kind == 'mod' and it.name in ('error', 'helpers', 'restrictions', 'multi_ref'):
                self.helper_mods[it.name] = it
            elif it.kind == 'mod':
                self.mods[it.name] = it
            else:
                self.root.append(it)
        # namespace uri -> module, from the yaserde attribute of the structs inside each module
        self.ns_mod: Dict[str, str] = {}
        self.mod_prefix: Dict[str, str] = {}
        for name, m in self.mods.items():
            for c in m.children:
                if c.kind == 'struct':
                    a = self.attr_text(c)
                    mm = re.search(r'prefix\s*=\s*"([^"]*)"\s*,\s*namespaces\s*=\s*\{\s*"([^"]*)"\s*=\s*"([^"]*)"', a)
                    if mm:
                        uri = mm.group(3)
                        if self.ns_mod.get(uri, name) != name:
                            raise Disagreement('C10', f'namespace {uri} is emitted in two modules: {self.ns_mod[uri]} and {name}')
                        self.ns_mod[uri] = name
                        self.mod_prefix[name] = mm.group(1)

    def attr_text(self, it: Item) -> str:
        return ' '.join(it.src[it.toks[a].start:it.toks[b].end] for a, b in it.attrs if it.toks[a].text == '#')

    def structs(self, container: Optional[Item]) -> Dict[str, Item]:
        items = container.children if container is not None else self.root
        return {c.name: c for c in items if c.kind == 'struct'}

    def aliases(self, container: Optional[Item]) -> Dict[str, Item]:
        items = container.children if container is not None else self.root
        return {c.name: c for c in items if c.kind == 'type'}

    def impls(self, container: Optional[Item]) -> Dict[str, Item]:
        items = container.children if container is not None else self.root
        out = {}
        for c in items:
            if c.kind == 'impl':
                m = re.fullmatch(r'restrictions :: CheckRestrictions for (\w+)', c.name)
                if m:
                    out[m.group(1)] = c
        return out

    @staticmethod
    def fields(st: Item) -> List[Tuple[str, str, str]]:
        """[(field name, type text, attribute text)] of a struct item"""
        toks = st.toks
        out = []
        k = st.open + 1
        attrs = ''
        from ..rustlex import match_close, _next_sig
        while k < st.last:
            t = toks[k]
            if t.kind in ('ws', 'comment', 'doc'):
                k += 1
                continue
            if t.text == '#':
                j = _next_sig(toks, k + 1)
                cl = match_close(toks, j)
                attrs += st.src[t.start:toks[cl].end]
                k = cl + 1
                continue
            if t.kind == 'ident' and t.text == 'pub':
                k += 1
                j = _next_sig(toks, k)
                if toks[j].text == '(':
                    k = match_close(toks, j) + 1
                continue
            if t.kind == 'ident':
                name = t.text
                j = _next_sig(toks, k + 1)
                if toks[j].text != ':':
                    raise AnchorLost(f'cannot parse field list of struct {st.name}')
                j += 1
                depth = 0
                start = toks[_next_sig(toks, j)].start
                while j < st.last:
                    x = toks[j]
                    if x.kind == 'punct':
                        if x.text in '<([':
                            depth += 1
                        elif x.text in '>)]':
                            depth -= 1
                        elif x.text == ',' and depth == 0:
                            break
                    j += 1
                ty = ' '.join(st.src[start:toks[j].start].split())
                out.append((name, ty, attrs))
                attrs = ''
                k = j + 1
                continue
            k += 1
        return out


# ------------------------------------------------------------------------------------------------
# expectations derived from the schema

def field_ident_ok(expected_snake: str, emitted: str) -> bool:
    if expected_snake in MUST:
        if emitted.startswith('r#'):
            return emitted[2:] == expected_snake and expected_snake not in KW['noraw']
        # any other respelling must still be recognisably this name: the keyword padded with underscores
        return emitted not in MUST and emitted != expected_snake and emitted.strip('_') == expected_snake
    return emitted == expected_snake


class Spec:
    def __init__(self, m: M.Model, em: Emitted):
        self.m, self.em = m, em
        for ns in m.namespaces:
            has = any(k[0] == ns for k in list(m.complex) + list(m.simple) + list(m.elements))
            if has and ns not in em.ns_mod:
                # all components may be aliases only; fall back to a module that holds an expected name
                cand = [mn for mn, mod in em.mods.items()
                        if any(M.pascal(k[1]) in em.structs(mod) or M.pascal(k[1]) in em.aliases(mod)
                               for k in list(m.complex) + list(m.simple) + list(m.elements) if k[0] == ns)]
                if len(set(cand)) == 1:
                    em.ns_mod[ns] = cand[0]
                else:
                    raise Disagreement('C02', f'no module emitted for target namespace {ns}')

    def module_of(self, ns: str) -> str:
        return self.em.ns_mod[ns]

    def rust_type(self, t: M.TypeRef, emitted_ty: Optional[str] = None) -> str:
        """expected Rust type of a reference (bare, without Option/Vec)"""
        if t.builtin is not None:
            c = M.BUILTIN[t.builtin]
            if c is None:
                # any signed integer of at least 32 bits: take what was emitted if it is one of those
                core = emitted_ty
                for w in ('Option', 'Vec'):
                    mm = re.fullmatch(rf'{w}\s*<\s*(.*)\s*>', core or '')
                    if mm:
                        core = mm.group(1).strip()
                return core if core in M.WIDE_INT else 'i64'
            return c
        return f'{self.module_of(t.ns)}::{M.pascal(t.name)}'

    def wrap(self, occ: str, ty: str) -> str:
        return {'req': ty, 'opt': f'Option<{ty}>', 'vec': f'Vec<{ty}>'}[occ]

    # ---- restriction semantics of a simple type, as Verus spec text over `v` (a Seq<char>) -----
    def facets_formula(self, st: M.SimpleType, v: str) -> Tuple[str, str]:
        """(validity formula, domain formula) of the type's OWN facets on text v"""
        base = self.root_builtin(st)
        f = st.facets
        conj, dom = [], []
        num = [k for k in ('minInclusive', 'maxInclusive', 'minExclusive', 'maxExclusive') if k in f]
        ln = [k for k in ('length', 'minLength', 'maxLength') if k in f]
        if base in M.STRINGLIKE:
            if num:
                raise M.Unsupported('numeric facet on a string-like base')
        elif base in M.NUMERIC:
            if ln or st.enum is not None:
                raise M.Unsupported('length/enumeration facet on a numeric base (lexical vs value space)')
        else:
            if num or ln or st.enum is not None:
                raise M.Unsupported('facets on a boolean/float base')
        if 'minLength' in f:
            conj.append(f'{v}.len() >= {f["minLength"]}')
        if 'maxLength' in f:
            conj.append(f'{v}.len() <= {f["maxLength"]}')
        if 'length' in f:
            conj.append(f'{v}.len() == {f["length"]}')
        if st.enum is not None:
            conj.append('(' + ' || '.join(f'{v} == {rust_lit(e)}@' for e in st.enum) + ')' if st.enum else 'false')
        if num:
            c = [f'is_numeral({v})']
            op = {'minInclusive': '>=', 'maxInclusive': '<=', 'minExclusive': '>', 'maxExclusive': '<'}
            for k in num:
                c.append(f'int_of({v}) {op[k]} ({f[k]})')
            conj.append('(' + ' && '.join(c) + ')')
            dom.append(f'(is_numeral({v}) ==> i128::MIN <= int_of({v}) <= i128::MAX)')
        return (' && '.join(conj) or 'true', ' && '.join(dom) or 'true')

    def root_builtin(self, st: M.SimpleType) -> str:
        seen = set()
        while st.base.builtin is None:
            k = (st.base.ns, st.base.name)
            if k in seen:
                raise M.Unsupported('cyclic simple type')
            seen.add(k)
            st = self.m.simple[k]
        return st.base.builtin

    def text_path(self, st: M.SimpleType) -> str:
        """field path from a value of the simple type to its text: .value(.value)*"""
        p = '.value'
        while st.base.builtin is None:
            st = self.m.simple[(st.base.ns, st.base.name)]
            p += '.value'
        return p


def rust_lit(s: str) -> str:
    if re.search(r'["\\\n\r\t]', s) or not s.isprintable():
        raise M.Unsupported('enumeration literal needing escapes')
    return '"' + s + '"'
