"""Second back end (thorough tier): loop-free Kani harnesses over the full domain of the integer carriers of
helpers_content.rs (a complete proof per carrier, CBMC/CaDiCaL), and pointer identity of MultiRef clones."""
from __future__ import annotations
import os
import re
import subprocess
import time
from typing import Dict, List

from .core import scratch, REPO, Failure
from .replay import scratch_repo

INTS = ['i8', 'u8', 'i16', 'u16', 'i32', 'u32', 'i64', 'u64']

HARNESS = '''
#[cfg(kani)]
mod verif_kani {
    use crate::model::helpers_content::restrictions::{CheckRestrictions, Restrictions};
    use crate::model::helpers_content::multi_ref::MultiRef;
    use std::rc::Rc;
    use std::sync::Arc;

    fn facets() -> Restrictions {
        Restrictions { min_inclusive: kani::any(), max_inclusive: kani::any(), min_exclusive: kani::any(), max_exclusive: kani::any(),
                       length: None, min_length: None, max_length: None, enumeration: None }
    }
    // the property's wording: v >= minInclusive, v <= maxInclusive, v > minExclusive, v < maxExclusive
    fn num_ok(v: i128, r: &Restrictions) -> bool {
        r.min_inclusive.map_or(true, |b| v >= b as i128) && r.max_inclusive.map_or(true, |b| v <= b as i128)
            && r.min_exclusive.map_or(true, |b| v > b as i128) && r.max_exclusive.map_or(true, |b| v < b as i128)
    }
%s
    #[kani::proof]
    #[kani::unwind(3)]
    fn c19_clone_shares() {
        let a = MultiRef::new(kani::any::<u64>());
        let b = a.clone();
        assert!(Arc::ptr_eq(&*a, &*b));
        assert!(**a == **b);
    }
}
'''

ONE = '''
    #[kani::proof]
    #[kani::unwind(3)]
    fn c06_%(t)s() {
        let v: %(t)s = kani::any();
        let with_set: bool = kani::any();
        if with_set {
            let r = facets();
            let expect = num_ok(v as i128, &r);
            let got = v.check_restrictions(Some(Rc::new(r))).is_ok();
            assert!(got == expect);
            kani::cover!(got);
            kani::cover!(!got);
        } else {
            assert!(v.check_restrictions(None).is_ok());
        }
    }
'''


def run(which: List[str], repo: str = REPO, timeout: int = 1500) -> Dict[str, dict]:
    """which: harness names; returns {name: {'status': SUCCESS|FAILURE|ERROR, 'time_s':.., 'detail':..}}"""
    root = scratch_repo(repo)
    host = os.path.join(root, 'zeep-lib/src/model/mod.rs')
    orig = open(host, encoding='utf-8').read()
    res = {}
    try:
        open(host, 'w', encoding='utf-8').write(orig + HARNESS % ''.join(ONE % {'t': t} for t in INTS))
        env = dict(os.environ, CARGO_NET_OFFLINE='true', CARGO_TARGET_DIR=os.path.join(scratch(), 'kani-target'))
        for h in which:
            t0 = time.time()
            try:
                p = subprocess.run(['cargo', 'kani', '-p', 'zeep-lib', '--harness', h, '--default-unwind', '3', '-Z', 'concrete-playback',
                                    '--concrete-playback=print'], cwd=root, env=env, capture_output=True, text=True, timeout=timeout)
                out = p.stdout + p.stderr
            except subprocess.TimeoutExpired:
                res[h] = {'status': 'TIMEOUT', 'time_s': round(time.time() - t0, 1), 'detail': ''}
                continue
            m = re.search(r'VERIFICATION:- (\w+)', out)
            st = m.group(1) if m else 'ERROR'
            mc = re.search(r'(\d+) of (\d+) cover properties satisfied', out)
            covers = [int(mc.group(1)), int(mc.group(2))] if mc else []
            failed = re.findall(r'Failed Checks: (.*)', out)
            play = ''
            mm = re.search(r'Concrete playback unit test.*?```(.*?)```', out, re.S)
            if mm:
                play = mm.group(1)[:1500]
            res[h] = {'status': st, 'time_s': round(time.time() - t0, 1), 'covers': covers, 'failed_checks': failed[:4], 'playback': play,
                      'detail': '' if m else out[-800:]}
    finally:
        open(host, 'w', encoding='utf-8').write(orig)
    return res
