"""Unit runner: extract + splice from /repo, run Verus, map diagnostics to named obligations,
run the vacuity probe, and report."""
from __future__ import annotations
import atexit
import json
import os
import re
import shutil
import sys
import tempfile
import time
from dataclasses import dataclass, field, asdict
from typing import Dict, List, Optional, Tuple

from .rustlex import parse_file, find, walk, Item, LexError
from .splice import Out, AnchorLost, Chunk
from .verus_run import run_verus, VerusResult, Diag

VERIF = os.path.dirname(os.path.dirname(os.path.abspath(__file__)))
REPO = os.environ.get('VERIF_REPO', '/repo')
_scratch = None


def scratch() -> str:
    """per-run scratch directory outside /repo and /verif, removed at exit"""
    global _scratch
    if _scratch is None:
        base = os.environ.get('VERIF_SCRATCH', '/var/tmp')
        os.makedirs(base, exist_ok=True)
        _scratch = tempfile.mkdtemp(prefix='zeep-verif.%d.' % os.getpid(), dir=base)
        if not os.environ.get('VERIF_KEEP'):
            atexit.register(lambda: shutil.rmtree(_scratch, ignore_errors=True))
    return _scratch


class Inconclusive(Exception):
    pass


@dataclass
class Failure:
    unit: str
    obligation: str            # "<fid>#<clause>"  (clause == 'safety' for implicit obligations)
    message: str               # Verus' message
    exits: List[dict]          # code spans: {file,line,text}
    detail: str                # rendered diagnostic
    props: List[str] = field(default_factory=list)
    known: Optional[dict] = None
    sub: str = ''              # for a failed callee precondition: the label of that requires clause

    def exit_text(self) -> str:
        return ' | '.join(norm(e['text']) for e in self.exits)


def norm(s: str) -> str:
    return ' '.join(s.split())


@dataclass
class UnitRun:
    unit: str
    status: str                       # ok | failed | inconclusive
    reason: str = ''
    out: Optional[Out] = None
    vr: Optional[VerusResult] = None
    failures: List[Failure] = field(default_factory=list)
    obligations: List[str] = field(default_factory=list)
    probe: Optional[dict] = None
    file: str = ''
    trusted: List[str] = field(default_factory=list)
    wall_s: float = 0.0


class Unit:
    name = '?'
    props: Tuple[str, ...] = ()
    rlimit: Optional[float] = None

    def build(self, repo: str, probe: bool = False) -> Out:
        raise NotImplementedError

    def props_of(self, obligation: str) -> List[str]:
        """property ids served by an obligation label"""
        return list(self.props)

    def props_of_failure(self, f: 'Failure') -> List[str]:
        return self.props_of(f.obligation)

    def trusted_base(self) -> List[str]:
        return []


def read_sections(path: str, want: List[str]) -> Tuple[str, List[str]]:
    """select `//# section: name` blocks from a prelude file; returns (text, names of trusted items)"""
    cur = None
    chunks: Dict[str, List[str]] = {}
    order = []
    for line in open(path, encoding='utf-8'):
        m = re.match(r'\s*//# section: (\S+)', line)
        if m:
            cur = m.group(1)
            if cur not in chunks:
                chunks[cur] = []
                order.append(cur)
            continue
        if cur:
            chunks[cur].append(line)
    text = []
    names = []
    for sec in order:
        if sec in want or sec.endswith('-begin') or sec.endswith('-end'):
            t = ''.join(chunks[sec])
            text.append(t)
            for m in re.finditer(r'(?:broadcast axiom fn|axiom fn)\s+(\w+)|assume_specification(?:<[^\[]*>)?\s*\[\s*(.+?)\s*\]\s*\(|external_type_specification\]\s*(?:#\[[^\]]*\]\s*)*pub struct \w+(?:<[^>]*>)?\(([^)]+)\)|external_trait_specification[^\n]*\]\s*(?:#\[[^\]]*\]\s*)*pub trait (\w+)|uninterp spec fn (\w+)|#\[verifier::external_body\]\s*pub (?:fn|struct) (\w+)', t):
                if m.group(1):
                    names.append(f'axiom {m.group(1)} ({os.path.basename(path)})')
                elif m.group(2):
                    names.append(f'assumed spec of {norm(m.group(2))} ({os.path.basename(path)})')
                elif m.group(3):
                    names.append(f'opaque external type {norm(m.group(3))}')
                elif m.group(4):
                    names.append(f'external trait declaration {m.group(4)} ({os.path.basename(path)})')
                elif m.group(6):
                    names.append(f'contract-only stand-in {m.group(6)} ({os.path.basename(path)})')
    missing = [w for w in want if w not in chunks]
    if missing:
        raise Inconclusive(f'prelude {path}: missing sections {missing}')
    return ''.join(text), names


CHEAT = re.compile(r'\b(assume\s*\(|admit\s*\(|assume_specification|external_body|external_fn_specification|'
                   r'external_type_specification|axiom\s+fn|#\[verifier::external\]|inline_air_stmt)')


def scan_cheats(out: Out) -> List[str]:
    """every assume/admit/external_body outside the prelude chunks is a defect of the checker"""
    bad = []
    for c in out.chunks:
        if getattr(c, 'trusted', False):
            continue
        # strip comments in contract chunks before scanning
        text = re.sub(r'//[^\n]*', '', c.text)
        for m in CHEAT.finditer(text):
            where = f'{c.origin[0]}:{c.origin[1]}' if c.origin else f'contract {c.label or ""}'
            bad.append(f'{m.group(0)} in {where}')
    return bad


def trusted_chunk(out: Out, text: str):
    out.spec(text)
    out.chunks[-1].trusted = True


def _span_info(out: Out, lines: List[str], span: dict, fname: str) -> Optional[dict]:
    # a span inside a std macro (assert_ne!, write!, ..): use the outermost call site in our file
    hops = 0
    while os.path.basename(span.get('file_name', '')) != fname and span.get('expansion') and hops < 8:
        nxt = span['expansion'].get('span')
        if not nxt:
            break
        lab, prim = span.get('label'), span.get('is_primary')
        span = dict(nxt)
        span.setdefault('label', lab)
        if span.get('label') is None:
            span['label'] = lab
        span['is_primary'] = prim
        hops += 1
    if os.path.basename(span.get('file_name', '')) != fname:
        return {'kind': 'external', 'file': span.get('file_name'), 'line': span.get('line_start'), 'label': span.get('label')}
    d = out.describe(span['line_start'])
    d['span_label'] = span.get('label')
    d['primary'] = span.get('is_primary')
    ls = span['line_start']
    d['text'] = lines[ls - 1].strip() if 0 < ls <= len(lines) else ''
    return d


def map_failures(unit: Unit, out: Out, vr: VerusResult, text: str) -> List[Failure]:
    lines = text.split('\n')
    fname = os.path.basename(vr.path)
    fails = []
    for d in vr.fail_diags():
        infos = [_span_info(out, lines, s, fname) for s in d.spans]
        code = [i for i in infos if i and i['kind'] == 'code']
        contract = [i for i in infos if i and i['kind'] == 'contract' and i.get('label')]
        fid = None
        for i in code:
            if i.get('fn'):
                fid = i['fn']
                break
        if fid is None:
            for i in infos:
                if i and i.get('fn'):
                    fid = i['fn']
                    break
        clause = 'safety'
        if d.message.startswith('assertion failed') and not code:
            clause = 'proof-hint'       # an assertion of a spliced ghost proof block: the proof no longer goes through
        if 'closure' in d.message:
            clause = 'closure-postcondition'
        if d.message.startswith('postcondition') or 'invariant' in d.message or 'decreases' in d.message:
            if contract:
                clause = contract[0]['label'].split('#', 1)[1]
                if fid is None:
                    fid = contract[0]['label'].split('#', 1)[0]
        elif d.message.startswith('precondition') and contract:
            clause = 'safety'
        ob = f'{fid or "?"}#{clause}'
        exits = [{'file': i['file'], 'line': i['line'], 'text': i['text'], 'what': i.get('span_label')} for i in code]
        extra = ''
        sub = ''
        if d.message.startswith('precondition') and contract:
            sub = contract[0]['label'].split('#', 1)[1]
            extra = f" (callee precondition {contract[0]['label']})"
        fl = Failure(unit.name, ob, d.message + extra, exits, d.rendered, sub=sub)
        fl.props = unit.props_of_failure(fl)
        fails.append(fl)
    return fails


def run_unit(unit: Unit, repo: str = REPO, probe: bool = True, tag: str = '', _depth: int = 0) -> UnitRun:
    t0 = time.time()
    ur = UnitRun(unit.name, 'inconclusive')
    try:
        out = unit.build(repo, probe=False)
    except (AnchorLost, LexError, FileNotFoundError, Inconclusive) as e:
        ur.reason = f'anchor lost / extraction failed: {e}'
        ur.wall_s = time.time() - t0
        return ur
    text = out.finish()
    ur.out = out
    ur.trusted = unit.trusted_base()
    path = os.path.join(scratch(), f'{unit.name}{tag}.rs')
    with open(path, 'w', encoding='utf-8') as f:
        f.write(text)
    ur.file = path
    for nm, src in (unit.aux_files(repo) if hasattr(unit, 'aux_files') else {}).items():
        shutil.copyfile(src, os.path.join(scratch(), nm))
    for k, v in (unit.env() if hasattr(unit, 'env') else {}).items():
        os.environ.setdefault(k, v)
    cheats = scan_cheats(out)
    if cheats:
        ur.reason = 'assumption found outside the prelude: ' + '; '.join(cheats[:5])
        ur.wall_s = time.time() - t0
        return ur
    vr = run_verus(path, rlimit=unit.rlimit)
    ur.vr = vr
    ur.obligations = obligations_of(out)
    fe = getattr(unit, 'front_end_obligations', None)
    if fe:
        ur.obligations += list(fe(out))
    if vr.json is None or vr.other_errors():
        # L3 shape / signature contracts: a type error located in such a chunk IS the decision
        if hasattr(unit, 'front_end_failures'):
            ffs = unit.front_end_failures(out, vr, text)
            if ffs and hasattr(unit, 'exclude') and _depth < 4 and ({f.obligation for f in ffs} - set(unit.exclude)):
                # the remaining obligations of this file are still undecided: drop the disagreeing
                # contract chunks and verify the rest
                unit.exclude |= {f.obligation for f in ffs}
                rest = run_unit(unit, repo, probe=probe, tag=tag + '_r', _depth=_depth + 1)
                rest.failures = ffs + [f for f in rest.failures]
                rest.obligations = sorted(set(rest.obligations) | {f.obligation for f in ffs})
                if rest.status == 'ok':
                    rest.status = 'failed'
                rest.wall_s = time.time() - t0
                return rest
            if ffs:
                # the file still does not type-check, so nothing else of it was decided: only the disagreeing clauses are counted
                ur.failures = ffs
                ur.obligations = sorted({f.obligation for f in ffs})
                ur.status = 'failed'
                ur.wall_s = time.time() - t0
                return ur
        msgs = [d.message for d in vr.other_errors()][:4] or [vr.stderr[-400:]]
        ur.reason = 'Verus could not process the extracted text (type error / unsupported construct): ' + ' | '.join(msgs)
        # The contract clauses of the functions Verus could not process are UNDECIDED (never a verdict by themselves):
        # the check may still decide them by replaying a failing input on the real code (see check.py, undecided rule).
        try:
            tl = text.split('\n')
            und = []
            seen = set()
            any_fn = False
            for d in vr.other_errors():
                infos = [_span_info(out, tl, sp, os.path.basename(vr.path)) for sp in d.spans]
                fids = {i['fn'] for i in infos if i and i.get('fn')}
                exits = [{'file': i['file'], 'line': i['line'], 'text': i['text'], 'what': i.get('span_label')}
                         for i in infos if i and i['kind'] == 'code']
                for fid in fids:
                    any_fn = True
                    for ob in ur.obligations:
                        if ob.startswith(fid + '#') and not ob.endswith('#proof-hint') and ob not in seen:
                            seen.add(ob)
                            fl = Failure(unit.name, ob, 'not verifiable: ' + d.message.split(' (note')[0], exits, d.rendered)
                            fl.props = sorted(set(unit.props_of_failure(fl)) | set(unit.props_of(ob)))
                            und.append(fl)
            if not any_fn:
                # the error is not inside a function under contract (a new type, a changed import ..): every clause of the unit is undecided
                d0 = (vr.other_errors() or [None])[0]
                for ob in ur.obligations:
                    if not ob.endswith('#proof-hint'):
                        fl = Failure(unit.name, ob, 'not verifiable: ' + (d0.message.split(' (note')[0] if d0 else 'front-end failure'), [], d0.rendered if d0 else '')
                        fl.props = sorted(set(unit.props_of_failure(fl)) | set(unit.props_of(ob)))
                        und.append(fl)
            if und:
                ur.undecided_failures = und
        except Exception:
            pass
        ur.wall_s = time.time() - t0
        return ur
    if vr.rlimit_diags():
        ur.reason = 'solver resource limit exceeded: ' + vr.rlimit_diags()[0].message
        # a proof that runs out of resources is UNDECIDED (never a verdict); the clauses of that function are handed to the
        # property's witness search, which may decide them by replaying a failing input on the real code
        try:
            tl = text.split('\n')
            und, seen = [], set()
            for d in vr.rlimit_diags():
                infos = [_span_info(out, tl, sp, os.path.basename(vr.path)) for sp in d.spans]
                for fid in {i['fn'] for i in infos if i and i.get('fn')}:
                    for ob in ur.obligations:
                        if ob.startswith(fid + '#') and not ob.endswith('#proof-hint') and ob not in seen:
                            seen.add(ob)
                            fl = Failure(unit.name, ob, 'not verifiable: solver resource limit exceeded', [], d.rendered)
                            fl.props = sorted(set(unit.props_of_failure(fl)) | set(unit.props_of(ob)))
                            und.append(fl)
            if und:
                ur.undecided_failures = und
        except Exception:
            pass
        ur.wall_s = time.time() - t0
        return ur
    ur.failures = map_failures(unit, out, vr, text)
    # failures of a function that uses results Verus knows nothing about are undecided, not verdicts
    und = [f for f in ur.failures if f.obligation.split('#')[0] in out.unconstrained and not f.obligation.endswith('#safety')]
    if und:
        ur.failures = [f for f in ur.failures if f not in und]
        ur.undecided = [f'{f.obligation}: undecided because ' + '; '.join(out.unconstrained[f.obligation.split("#")[0]][:3]) for f in und]
        ur.undecided_failures = und
    # functions whose anchors were lost (emitted as declarations, see UnitX._splice): their clauses are undecided
    lost = getattr(unit, 'lost', None) or []
    if lost:
        lf = []
        for fid, labs, why in lost:
            for ob in labs:
                fl = Failure(unit.name, ob, 'not verifiable: anchor lost: ' + why[:200], [], why)
                fl.props = sorted(set(unit.props_of(ob)))
                lf.append(fl)
                if ob not in ur.obligations:
                    ur.obligations.append(ob)
        ur.undecided_failures = list(getattr(ur, 'undecided_failures', []) or []) + lf
        ur.undecided = list(getattr(ur, 'undecided', []) or []) + [f'{fid}: anchor lost ({why[:120]})' for fid, _, why in lost]
    if vr.errors and not ur.failures and not getattr(ur, 'undecided', None):
        ur.reason = 'Verus reported errors that could not be mapped: ' + vr.stderr[-400:]
        ur.wall_s = time.time() - t0
        return ur
    if vr.verified + vr.errors == 0 and not fe:
        ur.reason = 'vacuous: Verus verified zero functions'
        ur.wall_s = time.time() - t0
        return ur
    ur.status = 'failed' if ur.failures else 'ok'
    if getattr(ur, 'undecided', None) and not ur.failures:
        ur.status = 'undecided'
        ur.reason = ' | '.join(ur.undecided[:4])
    if ur.failures and out.uncontracted:
        ur.status = 'inconclusive'
        ur.reason = 'obligations failed while functions without a contract are present (needs contract, not a verdict): ' + \
                    '; '.join(out.uncontracted)
    # vacuity probe: every function under contract, with `ensures false` appended, must be REJECTED.
    # A probed callee would make its callers trivially provable, so functions that were not rejected
    # in one pass are probed again on their own until no progress is made.
    if probe:
        try:
            todo = True
            want_all, got_all, passes, pw = None, set(), 0, 0.0
            while True:
                pout = unit.build(repo, probe=todo)
                ptext = pout.finish()
                ppath = os.path.join(scratch(), f'{unit.name}{tag}_probe{passes}.rs')
                with open(ppath, 'w', encoding='utf-8') as f:
                    f.write(ptext)
                pvr = run_verus(ppath, multiple_errors=1, rlimit=unit.rlimit)
                pw += pvr.wall_s
                passes += 1
                want = {fid for fid, r in pout.fns.items() if getattr(r, 'probe', False)}
                if want_all is None:
                    want_all = set(want)
                if pvr.json is None or pvr.other_errors():
                    ur.status = 'inconclusive'
                    ur.reason = 'vacuity probe file did not compile: ' + ' | '.join(d.message for d in pvr.other_errors()[:3])
                    break
                got = set()
                for fl in map_failures(unit, pout, pvr, ptext):
                    # any reported failure shows the function's obligations are not vacuously true
                    # (with --multiple-errors 1 only the first failing clause of a function is reported)
                    got.add(fl.obligation.split('#')[0])
                got_all |= (got & want)
                rest = want - got
                if not rest or rest == want or passes > 6:
                    break
                todo = frozenset(rest)
            ur.probe = {'functions_probed': len(want_all or ()), 'probes_rejected': len(got_all),
                        'not_rejected': sorted((want_all or set()) - got_all), 'passes': passes, 'wall_s': round(pw, 2)}
            if ur.status != 'inconclusive' and (want_all - got_all):
                ur.status = 'inconclusive'
                ur.reason = 'vacuity probe: `ensures false` was ACCEPTED for ' + ', '.join(sorted(want_all - got_all)) + \
                            ' (contradictory precondition or unsound assumption)'
        except (AnchorLost, LexError, Inconclusive) as e:
            ur.status = 'inconclusive'
            ur.reason = f'probe build failed: {e}'
    ur.wall_s = time.time() - t0
    return ur


def obligations_of(out: Out) -> List[str]:
    obs = []
    for fid, r in out.fns.items():
        if getattr(r, 'no_body', False):
            continue
        for l in r.ensures:
            obs.append(l)
        for l in getattr(r, 'inherited', []):
            obs.append(f'{fid}#{l}')
        for l in r.invariants:
            obs.append(l)
        obs.append(f'{fid}#safety')
    return obs
