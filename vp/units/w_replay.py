"""Witness search / replay for C15 on the real code: a failure injected at every write-call index of
every corpus document, plus a one-byte-at-a-time sink (replay aid; bounded by the corpus)."""
from __future__ import annotations
import re
import os
from ..replay import run_test_module, scratch_repo

DOCS_QUICK = ['zeep-lib/test-data/tempconverter.wsdl', 'zeep-lib/test-data/single-complex.xsd', 'zeep-lib/test-data/extensions.xsd',
              'zeep-lib/test-data/use-of-groups.xsd', 'zeep-lib/test-data/forward-pointing-type.xsd',
              'resources/hello/hello.wsdl', 'resources/blz_service/blz.wsdl', 'resources/simple/simple.xsd',
              'resources/number_services/number_services.wsdl']

EXTRA_DOC = '''<wsdl:definitions xmlns:wsdl="http://schemas.xmlsoap.org/wsdl/" xmlns:soap="http://schemas.xmlsoap.org/wsdl/soap/" xmlns:xs="http://www.w3.org/2001/XMLSchema" xmlns:tns="urn:verif:a" targetNamespace="urn:verif:a">
<wsdl:types><xs:schema targetNamespace="urn:verif:a" elementFormDefault="qualified">
<xs:simpleType name="Code"><xs:annotation><xs:documentation>first line
second line</xs:documentation></xs:annotation><xs:restriction base="xs:string"><xs:maxLength value="5"/><xs:enumeration value="a"/><xs:enumeration value="Zürich"/><xs:enumeration value="東京"/></xs:restriction></xs:simpleType>
<xs:simpleType name="ShortCode"><xs:restriction base="tns:Code"/></xs:simpleType>
<xs:simpleType name="Qty"><xs:restriction base="xs:int"><xs:minInclusive value="1"/><xs:maxExclusive value="10"/></xs:restriction></xs:simpleType>
<xs:complexType name="Line"><xs:sequence><xs:element name="code" type="tns:Code"/><xs:element name="qty" type="tns:Qty" minOccurs="0" maxOccurs="unbounded"/></xs:sequence><xs:attribute name="id" type="xs:string" use="required"/></xs:complexType>
<xs:complexType name="Tagged"><xs:annotation><xs:documentation>documentation of an attribute-only type
with a second line and a third: Grüße</xs:documentation></xs:annotation><xs:attribute name="tag" type="xs:string"/></xs:complexType>
<xs:complexType name="Derived"><xs:complexContent><xs:annotation><xs:documentation>documentation inside complexContent
second line</xs:documentation></xs:annotation><xs:extension base="tns:Line"><xs:sequence><xs:element name="extra" type="xs:string"/></xs:sequence></xs:extension></xs:complexContent></xs:complexType>
<xs:element name="Req"><xs:complexType><xs:sequence><xs:element name="line" type="tns:Line"/></xs:sequence></xs:complexType></xs:element>
<xs:element name="Resp" type="tns:Line"/>
<xs:element name="Hdr" type="tns:Code"/>
</xs:schema></wsdl:types>
<wsdl:message name="In"><wsdl:part name="body" element="tns:Req"/><wsdl:part name="hdr" element="tns:Hdr"/></wsdl:message>
<wsdl:message name="Out"><wsdl:part name="body" element="tns:Resp"/></wsdl:message>
<wsdl:portType name="P"><wsdl:operation name="DoIt"><wsdl:input message="tns:In"/><wsdl:output message="tns:Out"/></wsdl:operation></wsdl:portType>
<wsdl:binding name="B" type="tns:P"><soap:binding style="document" transport="http://schemas.xmlsoap.org/soap/http"/>
<wsdl:operation name="DoIt"><soap:operation soapAction="http://x/op"/><wsdl:input><soap:header message="tns:In" part="hdr" use="literal"/><soap:body parts="body" use="literal"/></wsdl:input><wsdl:output><soap:body use="literal"/></wsdl:output></wsdl:operation></wsdl:binding>
<wsdl:service name="Svc"><wsdl:port name="p" binding="tns:B"><soap:address location="http://localhost:1/x"/></wsdl:port></wsdl:service>
</wsdl:definitions>'''


def module_src(paths) -> str:
    arr = ', '.join('r#"%s"#' % p for p in paths)
    return '''
#[cfg(test)]
mod verif_replay_w {
    use crate::reader::{WriteXml, XmlReader};
    use crate::utils::read_input_file_and_xsd_files_at_path;
    // sticky: every write from index `at` on fails; one-shot: only that one write fails (a later piece may then succeed, which is
    // what exposes an error that was swallowed in between)
    struct FailAt { at: usize, n: usize, sticky: bool }
    impl std::io::Write for FailAt {
        fn write(&mut self, buf: &[u8]) -> std::io::Result<usize> {
            if self.n == self.at { if !self.sticky { self.n += 1; } return Err(std::io::Error::other("injected sink failure")); }
            self.n += 1; Ok(buf.len())
        }
        fn flush(&mut self) -> std::io::Result<()> { Ok(()) }
    }
    struct Prefix { out: Vec<u8>, state: u64 }
    impl std::io::Write for Prefix {
        fn write(&mut self, buf: &[u8]) -> std::io::Result<usize> {
            if buf.is_empty() { return Ok(0); }
            self.state = self.state.wrapping_mul(6364136223846793005).wrapping_add(1442695040888963407);
            let n = 1 + (self.state >> 33) as usize %% buf.len();
            self.out.extend_from_slice(&buf[..n]); Ok(n)
        }
        fn flush(&mut self) -> std::io::Result<()> { Ok(()) }
    }
    struct ZeroAfter { left: usize }
    impl std::io::Write for ZeroAfter {
        fn write(&mut self, buf: &[u8]) -> std::io::Result<usize> { let n = buf.len().min(self.left); self.left -= n; Ok(n) }
        fn flush(&mut self) -> std::io::Result<()> { Ok(()) }
    }
    struct OneByte(Vec<u8>);
    impl std::io::Write for OneByte {
        fn write(&mut self, buf: &[u8]) -> std::io::Result<usize> { if buf.is_empty() { return Ok(0); } self.0.push(buf[0]); Ok(1) }
        fn flush(&mut self) -> std::io::Result<()> { Ok(()) }
    }
    #[test]
    fn inject() {
        for path in [%s] {
            let files = match read_input_file_and_xsd_files_at_path(std::path::Path::new(path)) { Ok(f) => f, Err(e) => { println!("W|{path}|skip|read: {e}"); continue; } };
            let doc = match XmlReader::read_xml(&files) { Ok(d) => d, Err(e) => { println!("W|{path}|skip|parse: {e}"); continue; } };
            let mut full = Vec::new();
            if doc.write_xml(&mut full).is_err() { println!("W|{path}|skip|unconstrained write failed"); continue; }
            let mut cnt = FailAt { at: usize::MAX, n: 0, sticky: true };
            doc.write_xml(&mut cnt).unwrap();
            let n = cnt.n;
            let mut bad = 0;
            for sticky in [true, false] {
            for k in 0..n {
                let mut w = FailAt { at: k, n: 0, sticky };
                let r = std::panic::catch_unwind(std::panic::AssertUnwindSafe(|| doc.write_xml(&mut w)));
                match r {
                    Err(_) => { println!("W|{path}|{k}|PANIC"); bad += 1; }
                    Ok(Ok(())) => { println!("W|{path}|{k}|FALSE-SUCCESS"); bad += 1; }
                    Ok(Err(crate::error::WriterError::Io { .. })) => {}
                    Ok(Err(e)) => { println!("W|{path}|{k}|NON-IO-ERROR {}", e.to_string().replace('|', "/").replace('\\n', " ")); bad += 1; }
                }
                if bad > 5 { break; }
            }
            }
            // short writes: one byte at a time, and pseudo-random prefixes (both may split a multi-byte character)
            let mut ob = OneByte(Vec::new());
            match std::panic::catch_unwind(std::panic::AssertUnwindSafe(|| doc.write_xml(&mut ob))) {
                Err(_) => println!("W|{path}|short|PANIC"),
                Ok(Ok(())) => if ob.0 != full { println!("W|{path}|short|DIFFERENT-OUTPUT"); },
                Ok(Err(_)) => println!("W|{path}|short|ERROR") }
            for seed in 1u64..6 {
                let mut pw = Prefix { out: Vec::new(), state: seed };
                match std::panic::catch_unwind(std::panic::AssertUnwindSafe(|| doc.write_xml(&mut pw))) {
                    Err(_) => { println!("W|{path}|short|PANIC"); break; }
                    Ok(Ok(())) => if pw.out != full { println!("W|{path}|short|DIFFERENT-OUTPUT"); break; },
                    Ok(Err(_)) => { println!("W|{path}|short|ERROR"); break; } }
            }
            // a sink that stops accepting bytes (Ok(0), like a full fixed buffer): generation must end with an error, not spin.
            // Run on a thread of its own with a watchdog (the document is read again there: it is not Send).
            for cut in [full.len() / 4, full.len() / 2, full.len() - full.len() / 8, full.len().saturating_sub(3)] {
                let p2 = path.to_string();
                let (tx, rx) = std::sync::mpsc::channel();
                std::thread::spawn(move || {
                    let files = match read_input_file_and_xsd_files_at_path(std::path::Path::new(&p2)) { Ok(f) => f, Err(_) => { let _ = tx.send("skip"); return; } };
                    let doc = match XmlReader::read_xml(&files) { Ok(d) => d, Err(_) => { let _ = tx.send("skip"); return; } };
                    let mut z = ZeroAfter { left: cut };
                    let r = std::panic::catch_unwind(std::panic::AssertUnwindSafe(|| doc.write_xml(&mut z)));
                    let _ = tx.send(match r { Err(_) => "PANIC", Ok(Ok(())) => "FALSE-SUCCESS", Ok(Err(_)) => "ok" });
                });
                match rx.recv_timeout(std::time::Duration::from_secs(15)) {
                    Ok("ok") | Ok("skip") => {}
                    Ok(what) => println!("W|{path}|full-sink@{cut}|{what}"),
                    Err(_) => { println!("W|{path}|full-sink@{cut}|HANG"); println!("W|{path}|{n}|done"); std::process::exit(0); }
                }
            }
            println!("W|{path}|{n}|done");
        }
    }
}
''' % arr


def _search(repo: str, tier: str = 'quick') -> dict:
    root = scratch_repo(repo)
    extra = os.path.join(root, 'verif_extra_doc.wsdl')
    with open(extra, 'w') as f:
        f.write(EXTRA_DOC)
    docs = [os.path.join(root, p) for p in DOCS_QUICK if os.path.exists(os.path.join(root, p))] + [extra]
    rc, outp = run_test_module(module_src(docs), 'verif_replay_w::inject', repo)
    res = {'documents': 0, 'write_calls_injected': 0, 'anomalies': [], 'skipped': [], 'rc': rc}
    for line in outp.splitlines():
        m_ = re.match(r'^(?:test \S+ \.\.\. )?(W\|.*)$', line)
        if not m_:
            continue
        line = m_.group(1)
        _, path, k, what = line.split('|', 3)
        path = os.path.relpath(path, root)
        if what == 'done':
            res['documents'] += 1
            res['write_calls_injected'] += int(k)
        elif k == 'skip':
            res['skipped'].append(f'{path}: {what}')
        else:
            res['anomalies'].append({'document': path, 'failing_write_index': k, 'observed': what})
    if res['documents'] == 0:
        res['error'] = outp[-1500:]
    return res


_MEMO = {}


def search(repo, *a, **kw):
    """one run of the harness per check process and tree (the result is shared by all obligations it decides)"""
    key = (repo, a, tuple(sorted(kw.items())))
    if key not in _MEMO:
        _MEMO[key] = _search(repo, *a, **kw)
    return _MEMO[key]
