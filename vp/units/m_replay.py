"""Witness search for C19 on the real multi_ref module: probe types (text-only, attributes, nested, optional / repeated members,
restricted) are serialized, deserialized and restriction-checked bare and wrapped in MultiRef, at the root and as a field."""
from __future__ import annotations
import re
from ..replay import run_test_module

MODULE = r'''
#[cfg(test)]
mod verif_replay_m {
    use crate::model::helpers_content::multi_ref::MultiRef;
    use crate::model::helpers_content::restrictions::{CheckRestrictions, Restrictions};
    use crate::model::helpers_content::error::SoapResult;
    use std::rc::Rc;
    use std::sync::Arc;
    use std::io::{Read, Write};
    use yaserde_derive::{YaDeserialize, YaSerialize};

    #[derive(Debug, Default, Clone, PartialEq, YaSerialize, YaDeserialize)]
    #[yaserde(prefix = "p", namespaces = {"p" = "urn:probe"}, rename = "Leaf")]
    struct Leaf {
        #[yaserde(attribute = true, rename = "id")]
        id: String,
        #[yaserde(prefix = "p", rename = "text")]
        text: String,
        #[yaserde(prefix = "p", rename = "opt")]
        opt: Option<i32>,
        #[yaserde(prefix = "p", rename = "many")]
        many: Vec<String>,
    }
    impl CheckRestrictions for Leaf {
        fn check_restrictions(&self, _r: Option<Rc<Restrictions>>) -> SoapResult<()> {
            let r = Some(Rc::new(Restrictions { max_length: Some(3), ..Default::default() }));
            self.text.check_restrictions(r)
        }
    }
    #[derive(Debug, Default, Clone, PartialEq, YaSerialize, YaDeserialize)]
    #[yaserde(prefix = "p", namespaces = {"p" = "urn:probe"}, rename = "Outer")]
    struct OuterBare { #[yaserde(prefix = "p", rename = "leaf")] leaf: Leaf, #[yaserde(prefix = "p", rename = "n")] n: i32 }
    #[derive(Debug, Default, YaSerialize, YaDeserialize)]
    #[yaserde(prefix = "p", namespaces = {"p" = "urn:probe"}, rename = "Outer")]
    struct OuterWrapped { #[yaserde(prefix = "p", rename = "leaf")] leaf: MultiRef<Leaf>, #[yaserde(prefix = "p", rename = "n")] n: i32 }

    fn leaves() -> Vec<Leaf> {
        vec![
            Leaf::default(),
            Leaf { id: "a<1>".into(), text: "ab".into(), opt: Some(-5), many: vec![] },
            Leaf { id: "".into(), text: "abcd".into(), opt: None, many: vec!["x".into(), "y & z".into()] },
            Leaf { id: "é".into(), text: "日本".into(), opt: Some(i32::MAX), many: vec!["".into()] },
        ]
    }
    #[test]
    fn probes() {
        let mut n = 0;
        for l in leaves() {
            n += 1;
            let bare = yaserde::ser::to_string(&l);
            let wrapped = yaserde::ser::to_string(&MultiRef::new(l.clone()));
            if bare != wrapped { println!("M|root-serialize|{l:?}|bare={bare:?} wrapped={wrapped:?}"); }
            let ob = yaserde::ser::to_string(&OuterBare { leaf: l.clone(), n: 7 });
            let ow = yaserde::ser::to_string(&OuterWrapped { leaf: MultiRef::new(l.clone()), n: 7 });
            if ob != ow { println!("M|field-serialize|{l:?}|bare={ob:?} wrapped={ow:?}"); }
            if let Ok(xml) = &bare {
                let db: Result<Leaf, String> = yaserde::de::from_str(xml);
                let dw: Result<MultiRef<Leaf>, String> = yaserde::de::from_str(xml);
                match (&db, &dw) {
                    (Ok(a), Ok(b)) => if *a != ***b { println!("M|root-deserialize|{l:?}|bare={a:?} wrapped={:?}", ***b); },
                    (Err(_), Err(_)) => {}
                    _ => println!("M|root-deserialize|{l:?}|one side failed: bare ok={} wrapped ok={}", db.is_ok(), dw.is_ok()),
                }
            }
            if let Ok(xml) = &ob {
                let db: Result<OuterBare, String> = yaserde::de::from_str(xml);
                let dw: Result<OuterWrapped, String> = yaserde::de::from_str(xml);
                match (&db, &dw) {
                    (Ok(a), Ok(b)) => if a.leaf != **b.leaf || a.n != b.n { println!("M|field-deserialize|{l:?}|differs"); },
                    (Err(_), Err(_)) => {}
                    _ => println!("M|field-deserialize|{l:?}|one side failed"),
                }
            }
            for r in [None, Some(Rc::new(Restrictions { min_length: Some(1), ..Default::default() }))] {
                let a = l.check_restrictions(r.clone()).is_ok();
                let b = MultiRef::new(l.clone()).check_restrictions(r.clone()).is_ok();
                if a != b { println!("M|check-restrictions|{l:?}|bare ok={a} wrapped ok={b} (restrictions {})", if r.is_some() { "Some" } else { "None" }); }
            }
            let m = MultiRef::new(l.clone());
            let c = m.clone();
            if !Arc::ptr_eq(&*m, &*c) { println!("M|clone-shares|{l:?}|clone copied the value"); }
            // history: the verdict may not depend on how many clones are alive, nor on what was done with the wrapper before
            for r in [None, Some(Rc::new(Restrictions { min_length: Some(1), ..Default::default() }))] {
                let a = l.check_restrictions(r.clone()).is_ok();
                let shared = m.check_restrictions(r.clone()).is_ok();
                let shared_c = c.check_restrictions(r.clone()).is_ok();
                let again = m.check_restrictions(r.clone()).is_ok();
                if a != shared || a != shared_c || a != again { println!("M|check-restrictions|{l:?}|bare ok={a}, with a live clone: wrapped ok={shared}, the clone ok={shared_c}, second call ok={again}"); }
                if yaserde::ser::to_string(&m).ok() != yaserde::ser::to_string(&l).ok() || yaserde::ser::to_string(&c).ok() != yaserde::ser::to_string(&l).ok() {
                    println!("M|root-serialize|{l:?}|with a live clone the wrapped text differs from the bare text");
                }
            }
            drop(c);
            let after = m.check_restrictions(None).is_ok();
            if after != l.check_restrictions(None).is_ok() { println!("M|check-restrictions|{l:?}|after dropping the clone: wrapped ok={after}"); }
        }
        // documents the bare type rejects (missing required member, wrong root, broken nesting) must be rejected when wrapped, too
        {
            let good = yaserde::ser::to_string(&OuterBare { leaf: leaves()[1].clone(), n: 3 }).unwrap();
            for (what, doc) in [("unbalanced", good.replace("</p:leaf>", "</p:oops>")), ("not-xml", "<<nope".to_string()), ("empty", String::new()),
                                ("member-not-a-number", good.replace(">3<", ">three<"))] {
                n += 1;
                let db: Result<OuterBare, String> = yaserde::de::from_str(&doc);
                let dw: Result<OuterWrapped, String> = yaserde::de::from_str(&doc);
                if db.is_ok() != dw.is_ok() { println!("M|field-deserialize|rejected document ({what})|bare ok={} wrapped ok={}", db.is_ok(), dw.is_ok()); }
                let lb: Result<Leaf, String> = yaserde::de::from_str(&doc);
                let lw: Result<MultiRef<Leaf>, String> = yaserde::de::from_str(&doc);
                if lb.is_ok() != lw.is_ok() { println!("M|root-deserialize|rejected document ({what})|bare ok={} wrapped ok={}", lb.is_ok(), lw.is_ok()); }
            }
        }
        // history: many failed reads followed by a good one (state kept across calls must not change the result), in one thread
        let good = yaserde::ser::to_string(&OuterBare { leaf: leaves()[1].clone(), n: 3 }).unwrap();
        let bad = good.replace("</p:leaf>", "</p:oops>");
        for round in 0..200 {
            n += 1;
            let _: Result<OuterWrapped, String> = yaserde::de::from_str(&bad);
            let _: Result<OuterBare, String> = yaserde::de::from_str(&bad);
            let db: Result<OuterBare, String> = yaserde::de::from_str(&good);
            let dw: Result<OuterWrapped, String> = yaserde::de::from_str(&good);
            match (&db, &dw) {
                (Ok(a), Ok(b)) => if a.leaf != **b.leaf || a.n != b.n { println!("M|field-deserialize|after {round} failed reads|differs"); break; },
                (Err(_), Err(_)) => {}
                _ => { println!("M|field-deserialize|after {round} failed reads|one side failed: bare ok={} wrapped ok={}", db.is_ok(), dw.is_ok()); break; }
            }
        }
        println!("M|done|{n}|");
    }
}
'''


def _search(repo):
    rc, outp = run_test_module(MODULE, 'verif_replay_m::probes', repo)
    res = {'probe_values': 0, 'anomalies': []}
    for line in outp.splitlines():
        m = re.match(r'^(?:test \S+ \.\.\. )?M\|([\w-]+)\|(.*?)\|(.*)$', line)
        if not m:
            continue
        if m.group(1) == 'done':
            res['probe_values'] = int(m.group(2))
        else:
            res['anomalies'].append({'aspect': m.group(1), 'value': m.group(2), 'observed': m.group(3)[:600]})
    if res['probe_values'] == 0:
        res['error'] = outp[-2000:]
    return res


_MEMO = {}


def search(repo, *a, **kw):
    """one run of the harness per check process and tree (the result is shared by all obligations it decides)"""
    key = (repo, a, tuple(sorted(kw.items())))
    if key not in _MEMO:
        _MEMO[key] = _search(repo, *a, **kw)
    return _MEMO[key]
