"""Replay harness for the injection half of C14: adversarial text is put into every position where schema text flows into
the output, the CURRENT generator (scratch copy of the tree) is run on each such schema, and the emitted file is lexed
(vp/rustlex.py, an independent Rust lexer): the file must lex, every occurrence of the payload's marker must lie inside a
string-literal or comment token, a string literal that carries the marker must evaluate to text containing the whole payload,
and the token skeleton around it must be the same as for a harmless value in the same position (no token was added)."""
from __future__ import annotations
import os
import re
from typing import Dict, List, Tuple
from xml.sax.saxutils import quoteattr, escape

from .. import l3gen
from ..core import scratch
from ..rustlex import lex, LexError

MARK = 'MARKERQ7'
PAYLOADS = [
    ('quote', MARK + '"; fn injected() {} //'),
    ('backslash', MARK + '\\'),
    ('backslash-quote', MARK + '\\"x'),
    ('newline', MARK + '\nfn injected() {}'),
    ('cr', MARK + '\rfn injected() {}'),
    ('comment-end', MARK + ' */ fn injected() {} /*'),
    ('braces', MARK + '{}}{'),
    ('unicode', MARK + '\u00e9\u65e5'),
    ('padded', '  ' + MARK + ' \t'),              # leading / trailing white space is part of the text
    ('non-xid', MARK + '\u00b2\u24b6'),          # alphanumeric for char::is_alphanumeric, but not XID_Continue: illegal in an identifier
]
BENIGN = 'plainvalue'

XS = 'http://www.w3.org/2001/XMLSchema'


def _schema(pos: str, val: str) -> Tuple[str, str]:
    """(file name, text) of a start file with `val` at position `pos`; every other name is harmless"""
    a = quoteattr      # XML attribute quoting: the PARSED value is `val`
    v = {p: BENIGN + p.replace('-', '') for p in POSITIONS}
    v[pos] = val
    tns = v['namespace-uri'] if pos == 'namespace-uri' else 'http://verif.example/inj'
    doc = escape(v['documentation']).replace('\r', '&#13;')
    xsd = (f'<xs:schema xmlns:xs="{XS}" elementFormDefault="qualified" targetNamespace={a(tns)} xmlns:t={a(tns)}>\n'
           f' <xs:simpleType name={a(v["simple-type-name"])}><xs:annotation><xs:documentation>{doc}</xs:documentation></xs:annotation>'
           f'<xs:restriction base="xs:string"><xs:enumeration value={a(v["enumeration-value"])}/><xs:enumeration value="other"/></xs:restriction></xs:simpleType>\n'
           f' <xs:simpleType name="Bounded"><xs:restriction base="xs:int"><xs:minInclusive value={a(v["facet-value"] if pos == "facet-value" else "1")}/></xs:restriction></xs:simpleType>\n'
           f' <xs:simpleType name="Sized"><xs:restriction base="xs:string"><xs:maxLength value={a(v["length-facet-value"] if pos == "length-facet-value" else "5")}/></xs:restriction></xs:simpleType>\n'
           f' <xs:complexType name={a(v["complex-type-name"])}><xs:annotation><xs:documentation>{doc}</xs:documentation></xs:annotation>'
           f'<xs:sequence><xs:element name={a(v["element-name"])} type="xs:string"/><xs:element name="plain" type="t:Bounded"/></xs:sequence>'
           f'<xs:attribute name={a(v["attribute-name"])} type="xs:string"/></xs:complexType>\n'
           f' <xs:element name={a(v["global-element-name"])}><xs:complexType><xs:sequence><xs:element name="inner" type="xs:int"/></xs:sequence></xs:complexType></xs:element>\n'
           f' <xs:element name="Reply"><xs:complexType><xs:sequence><xs:element name="ok" type="xs:boolean"/></xs:sequence></xs:complexType></xs:element>\n'
           f'</xs:schema>\n')
    if pos in WSDL_POS or pos == 'global-element-name' or pos == 'namespace-uri':
        ge = v['global-element-name']
        txt = (f'<wsdl:definitions xmlns:wsdl="http://schemas.xmlsoap.org/wsdl/" xmlns:soap="http://schemas.xmlsoap.org/wsdl/soap/" xmlns:xs="{XS}" '
               f'xmlns:t={a(tns)} targetNamespace={a(tns)}>\n<wsdl:types>\n{xsd}</wsdl:types>\n'
               f'<wsdl:message name={a(v["message-name"])}><wsdl:part name={a(v["part-name"])} element={a("t:" + ge)}/></wsdl:message>\n'
               f'<wsdl:message name="Out"><wsdl:part name="result" element="t:Reply"/></wsdl:message>\n'
               f'<wsdl:portType name="P"><wsdl:operation name={a(v["operation-name"])}><wsdl:input message={a("t:" + v["message-name"])}/><wsdl:output message="t:Out"/></wsdl:operation></wsdl:portType>\n'
               f'<wsdl:binding name="B" type="t:P"><soap:binding style="document" transport="http://schemas.xmlsoap.org/soap/http"/>\n'
               f' <wsdl:operation name={a(v["operation-name"])}><soap:operation soapAction={a(v[pos] if pos.startswith("soap-action") else "http://verif.example/act")}/>'
               f'<wsdl:input><soap:body use="literal"/></wsdl:input><wsdl:output><soap:body use="literal"/></wsdl:output></wsdl:operation></wsdl:binding>\n'
               f'<wsdl:service name={a(v["service-name"])}><wsdl:port name="p" binding="t:B"><soap:address location={a(v[pos] if pos.startswith("address") else "http://svc.example.org/x")}/></wsdl:port></wsdl:service>\n'
               f'</wsdl:definitions>\n')
        return 'main.wsdl', txt
    return 'main.xsd', xsd


WSDL_POS = ['message-name', 'part-name', 'operation-name', 'soap-action', 'service-name', 'address', 'soap-action-query', 'address-fragment']
POSITIONS = ['simple-type-name', 'complex-type-name', 'element-name', 'attribute-name', 'global-element-name', 'enumeration-value',
             'facet-value', 'length-facet-value', 'documentation', 'namespace-uri'] + WSDL_POS


def _unescape(lit: str) -> str:
    """value of a (non-raw) Rust string literal token"""
    body = lit[lit.index('"') + 1:-1]
    out, i = [], 0
    while i < len(body):
        c = body[i]
        if c != '\\':
            out.append(c); i += 1; continue
        n = body[i + 1] if i + 1 < len(body) else ''
        if n == 'n': out.append('\n'); i += 2
        elif n == 'r': out.append('\r'); i += 2
        elif n == 't': out.append('\t'); i += 2
        elif n == '0': out.append('\0'); i += 2
        elif n in '\\"\'': out.append(n); i += 2
        elif n == 'x': out.append(chr(int(body[i + 2:i + 4], 16))); i += 4
        elif n == 'u':
            j = body.index('}', i)
            out.append(chr(int(body[i + 3:j].replace('_', ''), 16))); i = j + 1
        elif n == '\n':
            i += 2
            while i < len(body) and body[i].isspace():
                i += 1
        else:
            out.append(n); i += 2
    return ''.join(out)


import json as _json
_KW = _json.load(open(os.path.join(os.path.dirname(os.path.dirname(os.path.dirname(os.path.abspath(__file__)))), 'contracts', 'keywords.json')))
KEYWORDS = set(_KW['strict'] + _KW['reserved'])
KEYWORD_PAYLOADS = ['type', 'self', 'Self', 'fn', 'crate', 'super', 'async', 'match', 'mod', 'struct', 'impl', 'where', 'move', 'dyn', 'abstract', 'yield', 'try', 'gen']


def _skeleton(toks) -> List[str]:
    """token kinds and punctuation, with identifiers / literals / comments abstracted: what the compiler sees as structure.
    Keywords are kept as themselves: a name that reaches the output as a keyword token changes the structure."""
    out = []
    for t in toks:
        if t.kind in ('ws', 'comment', 'doc'):
            continue
        if t.kind == 'ident' and t.text in KEYWORDS:
            out.append(t.text)
        else:
            out.append(t.text if t.kind == 'punct' else t.kind)
    return out


URL_POS = ['soap-action', 'address', 'soap-action-query', 'address-fragment']
NAME_POS = ['simple-type-name', 'complex-type-name', 'element-name', 'attribute-name', 'global-element-name', 'message-name', 'part-name',
            'operation-name', 'service-name']


def analyse(text: str, payload: str, benign_skeleton, names_become_identifiers=False) -> List[str]:
    """problems found in one emitted file"""
    try:
        toks = lex(text)
    except LexError as e:
        return [f'the emitted file does not lex as Rust: {e}']
    bad = []
    for t in toks:
        if MARK not in t.text:
            continue
        if t.kind in ('comment', 'doc'):
            if '\r' in t.text and t.kind == 'doc':
                bad.append('a bare carriage return inside a doc comment (rustc rejects the file; plain comments may contain one)')
            continue
        if t.kind == 'ident' and names_become_identifiers:
            if not t.text.replace('r#', '', 1).isidentifier():
                bad.append(f'`{t.text}` is not a legal Rust identifier (a character outside XID_Start/XID_Continue)')
            continue          # a name legitimately becomes (part of) an identifier; the skeleton comparison below decides
        if t.kind == 'string':
            if '\r' in t.text:
                bad.append('a bare carriage return inside a string literal (rustc rejects the file)')
            if t.text.lstrip('bc').startswith('r'):
                val = t.text
            else:
                val = _unescape(t.text)
            if payload not in val:
                bad.append(f'string literal {t.text[:80]!r} does not evaluate to text containing the original value')
            continue
        bad.append(f'schema text appears in a `{t.kind}` token ({t.text[:60]!r}), i.e. as code')
    if benign_skeleton is not None and not bad:
        sk = _skeleton(toks)
        if sk != benign_skeleton:
            # find first difference for the report
            k = next((i for i, (x, y) in enumerate(zip(sk, benign_skeleton)) if x != y), min(len(sk), len(benign_skeleton)))
            bad.append(f'the token structure of the output changed with the value (token {k}: {sk[k:k + 6]} vs {benign_skeleton[k:k + 6]}): schema text became code')
    return bad


def _search(repo, positions=None) -> dict:
    root = os.path.join(scratch(), 'inj')
    os.makedirs(root, exist_ok=True)
    cases: List[Tuple[str, str, str, str]] = []     # (position, payload name, payload, path)
    n = 0
    for pos in (positions or POSITIONS):
        kw = [('keyword-' + k, k) for k in KEYWORD_PAYLOADS] if pos in NAME_POS else []
        if pos in NAME_POS:
            # all-lower-case names with punctuation (a case-conversion shortcut must not let the punctuation through)
            kw += [('lower-punct', 'markerq7-item.v2'), ('lower-quote', 'markerq7"; fn injected() {} //')]
        numeric = pos in ('facet-value', 'length-facet-value')
        if numeric:
            # XSD integer spellings that are not Rust literals as they stand
            kw += [('plus-sign', '+5'), ('padded-number', ' 7 '), ('leading-zeros', '007'), ('plus-zero', '+0')]
        for pname, payload in [('benign', '5' if numeric else BENIGN + 'x')] + PAYLOADS + kw:
            if pos in URL_POS:
                # these positions must parse as a URL to be accepted at all; the payload sits in the path, the query or the fragment
                # (the URL parser treats them differently: a backslash survives in query and fragment)
                payload = {'soap-action': 'http://verif.example/a/', 'address': 'http://verif.example/a/',
                           'soap-action-query': 'http://verif.example/a?q=', 'address-fragment': 'http://verif.example/a#'}[pos] + payload
            d = os.path.join(root, f'c{n:04d}')
            os.makedirs(d, exist_ok=True)
            fn, txt = _schema(pos, payload)
            p = os.path.join(d, fn)
            open(p, 'w', encoding='utf-8').write(txt)
            cases.append((pos, pname, payload, p))
            n += 1
    gen = l3gen.generate([c[3] for c in cases], repo)
    res = {'cases': 0, 'rejected_by_generator': 0, 'anomalies': [], 'positions': list(positions or POSITIONS), 'payloads': [p[0] for p in PAYLOADS]}
    benign: Dict[str, list] = {}
    for pos, pname, payload, p in cases:
        g = gen[p]
        if pname == 'benign':
            if g['status'] == 'OK':
                try:
                    benign[pos] = _skeleton(lex(open(g['out'], encoding='utf-8', newline='').read()))
                except LexError:
                    pass
            continue
        res['cases'] += 1
        if g['status'] == 'PANIC':
            res['anomalies'].append({'position': pos, 'payload': pname, 'value': payload, 'problems': ['the generator panicked'], 'kind': 'panic'})
            continue
        if g['status'] == 'MISSING':
            res['error'] = 'the generation harness produced no result (compile error / crash): ' + g.get('msg', '')[-300:]
            continue
        if g['status'] != 'OK':
            res['rejected_by_generator'] += 1      # an error is a legitimate answer: nothing was emitted
            continue
        text = open(g['out'], encoding='utf-8', errors='replace', newline='').read()
        expect = payload
        # a URL is normalised by the URL parser (percent-encoding, stripped line breaks): the literal need not spell the original text
        probs = analyse(text, expect if pos not in URL_POS else MARK, benign.get(pos), names_become_identifiers=pos in NAME_POS)
        if pname.startswith('keyword-') or MARK not in payload:
            probs = [x.replace('schema text became code', f'the name `{payload}` reached the output as a keyword token (or changed the structure otherwise)') for x in probs]
        if probs:
            res['anomalies'].append({'position': pos, 'payload': pname, 'value': payload, 'problems': probs[:3], 'kind': 'injection',
                                     'schema': open(p, encoding='utf-8').read()[:2500]})
    if res['cases'] == 0:
        res['error'] = 'no case ran'
    if res['cases'] and res['rejected_by_generator'] == res['cases']:
        res['error'] = 'the generator rejected every case: the harness inputs are probably broken'
    return res


_MEMO = {}


def search(repo, *a, **kw):
    key = (repo, a, tuple(sorted(kw.items())))
    if key not in _MEMO:
        _MEMO[key] = _search(repo, *a, **kw)
    return _MEMO[key]
