"""BOUNDED stand-in for the part of C13 no contract reaches (roxmltree-driven reading code): structure-aware mutants of
the corpus schemas are read and written by the real library under catch_unwind; a panic, an abort or an excessive
running time is an anomaly.  Labelled bounded in the evidence; never counted as proved."""
from __future__ import annotations
import glob
import os
import random
import re
import shutil
import xml.etree.ElementTree as ET
from ..core import scratch, VERIF, REPO
from ..replay import run_test_module

MODULE = r'''
#[cfg(test)]
mod verif_c13_mutants {
    use crate::reader::{WriteXml, XmlReader};
    use crate::utils::read_input_file_and_xsd_files_at_path;
    #[test]
    fn run() {
        let manifest = std::fs::read_to_string(r#"%s"#).unwrap();
        for (i, path) in manifest.lines().enumerate() {
            println!("M|{i}|start|0");
            let t0 = std::time::Instant::now();
            let r = std::panic::catch_unwind(|| {
                let files = match read_input_file_and_xsd_files_at_path(std::path::Path::new(path)) { Ok(f) => f, Err(_) => return "read-err" };
                let doc = match XmlReader::read_xml(&files) { Ok(d) => d, Err(_) => return "parse-err" };
                let mut w = Vec::new();
                match doc.write_xml(&mut w) { Ok(()) => "ok", Err(_) => "write-err" }
            });
            let ms = t0.elapsed().as_millis();
            match r { Ok(s) => println!("M|{i}|{s}|{ms}"), Err(_) => println!("M|{i}|PANIC|{ms}") }
        }
        println!("M|end|done|0");
    }
}
'''


def _bases():
    out = []
    for d in sorted(glob.glob(os.path.join(VERIF, 'corpus', 'p*'))):
        files = sorted(glob.glob(os.path.join(d, '*')))
        start = [f for f in files if f.endswith('.wsdl')] or [f for f in files if os.path.basename(f) == 'main.xsd'] or files
        out.append((start[0], files))
    return out


def _mutants_of(text: str, rng: random.Random, limit: int):
    """textual, structure-aware mutations: drop / duplicate an element, drop / alter an attribute"""
    muts = []
    # elements: (start, end) of each start-tag ... matching end (self-closing or with content) found with a tiny scanner
    tags = [(m.start(), m.end(), m.group(1), m.group(0).endswith('/>')) for m in re.finditer(r'<([A-Za-z_][\w:.-]*)(?:\s[^<>]*)?/?>', text)]
    spans = []
    for (a, b, name, selfclose) in tags:
        if selfclose:
            spans.append((a, b))
        else:
            depth, pos = 1, b
            rx = re.compile(r'<(/?)' + re.escape(name) + r'(?:\s[^<>]*?)?(/?)>')
            while depth and pos < len(text):
                m = rx.search(text, pos)
                if not m:
                    break
                if m.group(2) == '/':
                    pass
                elif m.group(1) == '/':
                    depth -= 1
                else:
                    depth += 1
                pos = m.end()
            if depth == 0:
                spans.append((a, pos))
    for (a, b) in spans[1:]:
        muts.append(('drop-element', text[:a] + text[b:]))
        muts.append(('duplicate-element', text[:b] + text[a:b] + text[b:]))
    for m in re.finditer(r'\s([\w:.-]+)="([^"]*)"', text):
        muts.append(('drop-attribute:' + m.group(1), text[:m.start()] + text[m.end():]))
        v = m.group(2)
        if ':' in v and not v.startswith('http') and not v.startswith('urn'):
            muts.append(('dangling-prefix:' + m.group(1), text[:m.start(2)] + 'zz:' + v.split(':', 1)[1] + text[m.end(2):]))
            muts.append(('retarget:' + m.group(1), text[:m.start(2)] + v.split(':', 1)[0] + ':NoSuchThing' + text[m.end(2):]))
        muts.append(('empty-value:' + m.group(1), text[:m.start(2)] + text[m.end(2):]))
    rng.shuffle(muts)
    return muts[:limit]


FIXED = [
    ('not-xml', 'this is not xml at all <<<'),
    ('empty', ''),
    ('xml-not-schema', '<html><body>hello</body></html>'),
    ('self-import', '<xs:schema xmlns:xs="http://www.w3.org/2001/XMLSchema" targetNamespace="urn:a" xmlns:a="urn:a" elementFormDefault="qualified"><xs:import namespace="urn:a" schemaLocation="main.xsd"/><xs:complexType name="T"><xs:sequence><xs:element name="x" type="xs:string"/></xs:sequence></xs:complexType></xs:schema>'),
    ('self-extending-type', '<xs:schema xmlns:xs="http://www.w3.org/2001/XMLSchema" targetNamespace="urn:a" xmlns:a="urn:a" elementFormDefault="qualified"><xs:complexType name="T"><xs:complexContent><xs:extension base="a:T"><xs:sequence><xs:element name="x" type="xs:string"/></xs:sequence></xs:extension></xs:complexContent></xs:complexType></xs:schema>'),
    ('self-ref-element', '<xs:schema xmlns:xs="http://www.w3.org/2001/XMLSchema" targetNamespace="urn:a" xmlns:a="urn:a" elementFormDefault="qualified"><xs:element name="E"><xs:complexType><xs:sequence><xs:element ref="a:E" minOccurs="0"/></xs:sequence></xs:complexType></xs:element></xs:schema>'),
    ('mutual-extension-2', '<xs:schema xmlns:xs="http://www.w3.org/2001/XMLSchema" targetNamespace="urn:a" xmlns:a="urn:a" elementFormDefault="qualified"><xs:complexType name="Alpha"><xs:complexContent><xs:extension base="a:Beta"><xs:sequence><xs:element name="fAlpha" type="xs:string"/></xs:sequence></xs:extension></xs:complexContent></xs:complexType><xs:complexType name="Beta"><xs:complexContent><xs:extension base="a:Alpha"><xs:sequence><xs:element name="fBeta" type="xs:string"/></xs:sequence></xs:extension></xs:complexContent></xs:complexType></xs:schema>'),
    ('mutual-extension-3', '<xs:schema xmlns:xs="http://www.w3.org/2001/XMLSchema" targetNamespace="urn:a" xmlns:a="urn:a" elementFormDefault="qualified"><xs:complexType name="Alpha"><xs:complexContent><xs:extension base="a:Beta"><xs:sequence><xs:element name="fAlpha" type="xs:string"/></xs:sequence></xs:extension></xs:complexContent></xs:complexType><xs:complexType name="Beta"><xs:complexContent><xs:extension base="a:Gamma"><xs:sequence><xs:element name="fBeta" type="xs:string"/></xs:sequence></xs:extension></xs:complexContent></xs:complexType><xs:complexType name="Gamma"><xs:complexContent><xs:extension base="a:Alpha"><xs:sequence><xs:element name="fGamma" type="xs:string"/></xs:sequence></xs:extension></xs:complexContent></xs:complexType></xs:schema>'),
    ('mutual-element-refs', '<xs:schema xmlns:xs="http://www.w3.org/2001/XMLSchema" targetNamespace="urn:a" xmlns:a="urn:a" elementFormDefault="qualified"><xs:element name="Ping"><xs:complexType><xs:sequence><xs:element ref="a:Pong" minOccurs="0"/></xs:sequence></xs:complexType></xs:element><xs:element name="Pong"><xs:complexType><xs:sequence><xs:element ref="a:Ping" minOccurs="0"/></xs:sequence></xs:complexType></xs:element></xs:schema>'),
    ('element-ref-cycle-3', '<xs:schema xmlns:xs="http://www.w3.org/2001/XMLSchema" targetNamespace="urn:a" xmlns:a="urn:a" elementFormDefault="qualified"><xs:element name="One"><xs:complexType><xs:sequence><xs:element ref="a:Two" minOccurs="0"/></xs:sequence></xs:complexType></xs:element><xs:element name="Two"><xs:complexType><xs:sequence><xs:element ref="a:Three" minOccurs="0"/></xs:sequence></xs:complexType></xs:element><xs:element name="Three"><xs:complexType><xs:sequence><xs:element ref="a:One" minOccurs="0"/></xs:sequence></xs:complexType></xs:element></xs:schema>'),
    ('extension-of-missing-base', '<xs:schema xmlns:xs="http://www.w3.org/2001/XMLSchema" targetNamespace="urn:a" xmlns:a="urn:a" elementFormDefault="qualified"><xs:complexType name="Alpha"><xs:complexContent><xs:extension base="a:Nowhere"><xs:sequence><xs:element name="fAlpha" type="xs:string"/></xs:sequence></xs:extension></xs:complexContent></xs:complexType></xs:schema>'),
    ('empty-schema', '<xs:schema xmlns:xs="http://www.w3.org/2001/XMLSchema" targetNamespace="urn:a" xmlns:a="urn:a" elementFormDefault="qualified"></xs:schema>'),
    ('schema-without-components-but-import', '<xs:schema xmlns:xs="http://www.w3.org/2001/XMLSchema" targetNamespace="urn:a" xmlns:a="urn:a" elementFormDefault="qualified"><xs:import namespace="urn:b"/></xs:schema>'),
    ('deep-nested-sequences', '<xs:schema xmlns:xs="http://www.w3.org/2001/XMLSchema" targetNamespace="urn:a" xmlns:a="urn:a" elementFormDefault="qualified"><xs:complexType name="Deep"><xs:sequence><xs:sequence><xs:sequence><xs:sequence><xs:sequence><xs:sequence><xs:sequence><xs:sequence><xs:sequence><xs:sequence><xs:sequence><xs:sequence><xs:sequence><xs:sequence><xs:sequence><xs:sequence><xs:sequence><xs:sequence><xs:sequence><xs:sequence><xs:sequence><xs:sequence><xs:sequence><xs:sequence><xs:sequence><xs:sequence><xs:sequence><xs:sequence><xs:sequence><xs:sequence><xs:sequence><xs:sequence><xs:sequence><xs:sequence><xs:sequence><xs:sequence><xs:sequence><xs:sequence><xs:sequence><xs:sequence><xs:sequence><xs:sequence><xs:sequence><xs:sequence><xs:sequence><xs:sequence><xs:sequence><xs:sequence><xs:sequence><xs:sequence><xs:sequence><xs:sequence><xs:sequence><xs:sequence><xs:sequence><xs:sequence><xs:sequence><xs:sequence><xs:sequence><xs:sequence><xs:sequence><xs:sequence><xs:sequence><xs:sequence><xs:sequence><xs:sequence><xs:sequence><xs:sequence><xs:sequence><xs:sequence><xs:sequence><xs:sequence><xs:sequence><xs:sequence><xs:sequence><xs:sequence><xs:sequence><xs:sequence><xs:sequence><xs:sequence><xs:sequence><xs:sequence><xs:sequence><xs:sequence><xs:sequence><xs:sequence><xs:sequence><xs:sequence><xs:sequence><xs:sequence><xs:sequence><xs:sequence><xs:sequence><xs:sequence><xs:sequence><xs:sequence><xs:sequence><xs:sequence><xs:sequence><xs:sequence><xs:sequence><xs:sequence><xs:sequence><xs:sequence><xs:sequence><xs:sequence><xs:sequence><xs:sequence><xs:sequence><xs:sequence><xs:sequence><xs:sequence><xs:sequence><xs:sequence><xs:sequence><xs:sequence><xs:sequence><xs:sequence><xs:sequence><xs:sequence><xs:sequence><xs:sequence><xs:sequence><xs:sequence><xs:sequence><xs:sequence><xs:sequence><xs:sequence><xs:sequence><xs:sequence><xs:sequence><xs:sequence><xs:sequence><xs:sequence><xs:sequence><xs:sequence><xs:sequence><xs:sequence><xs:sequence><xs:sequence><xs:sequence><xs:sequence><xs:sequence><xs:sequence><xs:sequence><xs:sequence><xs:sequence><xs:sequence><xs:sequence><xs:sequence><xs:sequence><xs:sequence><xs:sequence><xs:sequence><xs:sequence><xs:sequence><xs:sequence><xs:sequence><xs:sequence><xs:sequence><xs:sequence><xs:sequence><xs:sequence><xs:sequence><xs:sequence><xs:sequence><xs:sequence><xs:sequence><xs:sequence><xs:sequence><xs:sequence><xs:sequence><xs:sequence><xs:sequence><xs:sequence><xs:sequence><xs:sequence><xs:sequence><xs:sequence><xs:sequence><xs:sequence><xs:sequence><xs:sequence><xs:sequence><xs:sequence><xs:sequence><xs:sequence><xs:sequence><xs:sequence><xs:sequence><xs:sequence><xs:sequence><xs:sequence><xs:sequence><xs:sequence><xs:sequence><xs:sequence><xs:sequence><xs:sequence><xs:sequence><xs:element name="x" type="xs:string"/></xs:sequence></xs:sequence></xs:sequence></xs:sequence></xs:sequence></xs:sequence></xs:sequence></xs:sequence></xs:sequence></xs:sequence></xs:sequence></xs:sequence></xs:sequence></xs:sequence></xs:sequence></xs:sequence></xs:sequence></xs:sequence></xs:sequence></xs:sequence></xs:sequence></xs:sequence></xs:sequence></xs:sequence></xs:sequence></xs:sequence></xs:sequence></xs:sequence></xs:sequence></xs:sequence></xs:sequence></xs:sequence></xs:sequence></xs:sequence></xs:sequence></xs:sequence></xs:sequence></xs:sequence></xs:sequence></xs:sequence></xs:sequence></xs:sequence></xs:sequence></xs:sequence></xs:sequence></xs:sequence></xs:sequence></xs:sequence></xs:sequence></xs:sequence></xs:sequence></xs:sequence></xs:sequence></xs:sequence></xs:sequence></xs:sequence></xs:sequence></xs:sequence></xs:sequence></xs:sequence></xs:sequence></xs:sequence></xs:sequence></xs:sequence></xs:sequence></xs:sequence></xs:sequence></xs:sequence></xs:sequence></xs:sequence></xs:sequence></xs:sequence></xs:sequence></xs:sequence></xs:sequence></xs:sequence></xs:sequence></xs:sequence></xs:sequence></xs:sequence></xs:sequence></xs:sequence></xs:sequence></xs:sequence></xs:sequence></xs:sequence></xs:sequence></xs:sequence></xs:sequence></xs:sequence></xs:sequence></xs:sequence></xs:sequence></xs:sequence></xs:sequence></xs:sequence></xs:sequence></xs:sequence></xs:sequence></xs:sequence></xs:sequence></xs:sequence></xs:sequence></xs:sequence></xs:sequence></xs:sequence></xs:sequence></xs:sequence></xs:sequence></xs:sequence></xs:sequence></xs:sequence></xs:sequence></xs:sequence></xs:sequence></xs:sequence></xs:sequence></xs:sequence></xs:sequence></xs:sequence></xs:sequence></xs:sequence></xs:sequence></xs:sequence></xs:sequence></xs:sequence></xs:sequence></xs:sequence></xs:sequence></xs:sequence></xs:sequence></xs:sequence></xs:sequence></xs:sequence></xs:sequence></xs:sequence></xs:sequence></xs:sequence></xs:sequence></xs:sequence></xs:sequence></xs:sequence></xs:sequence></xs:sequence></xs:sequence></xs:sequence></xs:sequence></xs:sequence></xs:sequence></xs:sequence></xs:sequence></xs:sequence></xs:sequence></xs:sequence></xs:sequence></xs:sequence></xs:sequence></xs:sequence></xs:sequence></xs:sequence></xs:sequence></xs:sequence></xs:sequence></xs:sequence></xs:sequence></xs:sequence></xs:sequence></xs:sequence></xs:sequence></xs:sequence></xs:sequence></xs:sequence></xs:sequence></xs:sequence></xs:sequence></xs:sequence></xs:sequence></xs:sequence></xs:sequence></xs:sequence></xs:sequence></xs:sequence></xs:sequence></xs:sequence></xs:sequence></xs:sequence></xs:sequence></xs:sequence></xs:sequence></xs:sequence></xs:sequence></xs:sequence></xs:sequence></xs:sequence></xs:sequence></xs:sequence></xs:sequence></xs:sequence></xs:sequence></xs:sequence></xs:complexType></xs:schema>'),
    ('enumeration-without-value', '<xs:schema xmlns:xs="http://www.w3.org/2001/XMLSchema" targetNamespace="urn:a"><xs:simpleType name="T"><xs:restriction base="xs:string"><xs:enumeration/></xs:restriction></xs:simpleType></xs:schema>'),
]


def search(repo: str = REPO, tier: str = 'quick', seed: int = 0) -> dict:
    rng = random.Random(seed)
    root = os.path.join(scratch(), 'c13')
    shutil.rmtree(root, ignore_errors=True)
    os.makedirs(root)
    per_doc = 30 if tier == 'quick' else 250
    manifest, kinds = [], []
    n = 0
    for start, files in _bases():
        text = open(start, encoding='utf-8').read()
        for kind, mt in _mutants_of(text, rng, per_doc):
            d = os.path.join(root, f'm{n:05d}')
            os.makedirs(d)
            for f in files:
                if f != start:
                    shutil.copy(f, d)
            p = os.path.join(d, os.path.basename(start))
            open(p, 'w', encoding='utf-8').write(mt)
            manifest.append(p)
            kinds.append(f'{os.path.relpath(start, VERIF)}:{kind}')
            n += 1
    for kind, text in FIXED:
        d = os.path.join(root, f'm{n:05d}')
        os.makedirs(d)
        p = os.path.join(d, 'main.xsd')
        open(p, 'w', encoding='utf-8').write(text)
        manifest.append(p)
        kinds.append('fixed:' + kind)
        n += 1
    # mutual import
    d = os.path.join(root, f'm{n:05d}')
    os.makedirs(d)
    for a, b in (('main', 'other'), ('other', 'main')):
        open(os.path.join(d, a + '.xsd'), 'w').write(f'<xs:schema xmlns:xs="http://www.w3.org/2001/XMLSchema" targetNamespace="urn:{a}" xmlns:t="urn:{a}" elementFormDefault="qualified"><xs:import namespace="urn:{b}" schemaLocation="{b}.xsd"/><xs:complexType name="T{a}"><xs:sequence><xs:element name="x" type="xs:string"/></xs:sequence></xs:complexType></xs:schema>')
    manifest.append(os.path.join(d, 'main.xsd'))
    kinds.append('fixed:mutual-import')
    mf = os.path.join(root, 'manifest.txt')
    open(mf, 'w').write('\n'.join(manifest) + '\n')
    rc, outp = run_test_module(MODULE % mf, 'verif_c13_mutants::run', repo, timeout=1800)
    res = {'mutants': len(manifest), 'completed': 0, 'anomalies': [], 'outcomes': {}, 'slowest_ms': 0}
    started = None
    ended = False
    for line in outp.splitlines():
        m = re.match(r'^(?:test \S+ \.\.\. )?M\|(\w+)\|([\w-]+)\|(\d+)$', line)
        if not m:
            continue
        i, st, ms = m.group(1), m.group(2), int(m.group(3))
        if i == 'end':
            ended = True
            continue
        i = int(i)
        if st == 'start':
            started = i
            continue
        res['completed'] += 1
        res['outcomes'][st] = res['outcomes'].get(st, 0) + 1
        res['slowest_ms'] = max(res['slowest_ms'], ms)
        if st == 'PANIC':
            res['anomalies'].append({'mutant': kinds[i], 'observed': 'panic', 'file': manifest[i], 'text': open(manifest[i], encoding='utf-8').read()[:3000]})
        elif ms > 20000:
            res['anomalies'].append({'mutant': kinds[i], 'observed': f'took {ms} ms', 'file': manifest[i]})
    if not ended and started is not None:
        res['anomalies'].append({'mutant': kinds[started], 'observed': 'process aborted (stack overflow?) or timed out while processing this input',
                                 'file': manifest[started], 'text': open(manifest[started], encoding='utf-8').read()[:3000]})
    if res['completed'] == 0 and not res['anomalies']:
        res['error'] = outp[-1500:]
    return res
