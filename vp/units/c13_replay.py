"""BOUNDED stand-in for the part of C13 no contract reaches (roxmltree-driven reading code): structure-aware mutants of
the corpus schemas are read and written by the real library under catch_unwind; a panic, an abort or an excessive
running time is an anomaly.  Labelled bounded in the evidence; never counted as proved."""
from __future__ import annotations
import glob
import os
import random
import re
import shutil
import xml.etree.ElementTree as ET
from ..core import scratch, VERIF, REPO
from ..replay import run_test_module

HANG_S = 20

MODULE = r'''
#[cfg(test)]
mod verif_c13_mutants {
    use crate::reader::{WriteXml, XmlReader};
    use crate::utils::read_input_file_and_xsd_files_at_path;
    #[test]
    fn run() {
        let manifest = std::fs::read_to_string(r#"%s"#).unwrap();
        let start: usize = std::env::var("VERIF_C13_START").ok().and_then(|s| s.parse().ok()).unwrap_or(0);
        for (i, path) in manifest.lines().enumerate() {
            if i < start { continue; }
            println!("M|{i}|start|0");
            let t0 = std::time::Instant::now();
            let path = path.to_string();
            let (tx, rx) = std::sync::mpsc::channel();
            // each input runs on its own thread so that a hang is observed (watchdog) instead of blocking the check
            std::thread::spawn(move || {
                let r = std::panic::catch_unwind(|| {
                    let files = match read_input_file_and_xsd_files_at_path(std::path::Path::new(&path)) { Ok(f) => f, Err(_) => return "read-err" };
                    let doc = match XmlReader::read_xml(&files) { Ok(d) => d, Err(_) => return "parse-err" };
                    let mut w = Vec::new();
                    match doc.write_xml(&mut w) { Ok(()) => "ok", Err(_) => "write-err" }
                });
                let _ = tx.send(match r { Ok(s) => s, Err(_) => "PANIC" });
            });
            match rx.recv_timeout(std::time::Duration::from_secs(%d)) {
                Ok(s) => println!("M|{i}|{s}|{}", t0.elapsed().as_millis()),
                Err(_) => { println!("M|{i}|HANG|{}", t0.elapsed().as_millis()); std::process::exit(0); }
            }
        }
        println!("M|end|done|0");
    }
}
'''


def _bases():
    out = []
    for d in sorted(glob.glob(os.path.join(VERIF, 'corpus', 'p*'))):
        files = sorted(glob.glob(os.path.join(d, '*')))
        start = [f for f in files if f.endswith('.wsdl')] or [f for f in files if os.path.basename(f) == 'main.xsd'] or files
        out.append((start[0], files))
    return out


def _mutants_of(text: str, rng: random.Random, limit: int):
    """textual, structure-aware mutations: drop / duplicate an element, drop / alter an attribute"""
    muts = []
    # elements: (start, end) of each start-tag ... matching end (self-closing or with content) found with a tiny scanner
    tags = [(m.start(), m.end(), m.group(1), m.group(0).endswith('/>')) for m in re.finditer(r'<([A-Za-z_][\w:.-]*)(?:\s[^<>]*)?/?>', text)]
    spans = []
    for (a, b, name, selfclose) in tags:
        if selfclose:
            spans.append((a, b))
        else:
            depth, pos = 1, b
            rx = re.compile(r'<(/?)' + re.escape(name) + r'(?:\s[^<>]*?)?(/?)>')
            while depth and pos < len(text):
                m = rx.search(text, pos)
                if not m:
                    break
                if m.group(2) == '/':
                    pass
                elif m.group(1) == '/':
                    depth -= 1
                else:
                    depth += 1
                pos = m.end()
            if depth == 0:
                spans.append((a, pos))
    for (a, b) in spans[1:]:
        muts.append(('drop-element', text[:a] + text[b:]))
        muts.append(('duplicate-element', text[:b] + text[a:b] + text[b:]))
    for m in re.finditer(r'\s([\w:.-]+)="([^"]*)"', text):
        muts.append(('drop-attribute:' + m.group(1), text[:m.start()] + text[m.end():]))
        v = m.group(2)
        if ':' in v and not v.startswith('http') and not v.startswith('urn'):
            muts.append(('dangling-prefix:' + m.group(1), text[:m.start(2)] + 'zz:' + v.split(':', 1)[1] + text[m.end(2):]))
            muts.append(('retarget:' + m.group(1), text[:m.start(2)] + v.split(':', 1)[0] + ':NoSuchThing' + text[m.end(2):]))
        muts.append(('empty-value:' + m.group(1), text[:m.start(2)] + text[m.end(2):]))
        if m.group(1) in ('minOccurs', 'maxOccurs', 'value') and re.fullmatch(r'-?\d+|unbounded', v):
            for big in ('65536', '4294967296', '18446744073709551616', '-1'):
                muts.append((f'extreme-number:{m.group(1)}={big}', text[:m.start(2)] + big + text[m.end(2):]))
    rng.shuffle(muts)
    muts = muts[:limit]
    # namespace URIs are schema-supplied text that the library slices and abbreviates: swap each URI of the document (all of its
    # occurrences at once) for adversarial ones; these are always kept
    uris = sorted({m.group(2) for m in re.finditer(r'\s(targetNamespace|xmlns:[\w.-]+)="([^"]*)"', text)
                   if 'w3.org' not in m.group(2) and 'xmlsoap.org' not in m.group(2)})
    for u in uris[:3]:
        for k, adv in enumerate(ADVERSARIAL_URIS):
            muts.append((f'adversarial-uri:{k}', text.replace('"' + u + '"', '"' + adv + '"')))
    return muts


ADVERSARIAL_URIS = ['http://example.org/pr\u00fcfung', 'http://example.org/money-v.1\u20ac', 'http://example.org/', '', 'urn:\u20ac',
                    'http://example.org/\u65e5\u672c\u8a9e', 'http://example.org/a-', '...', 'http://example.org/x/.\u00e9.\u00e9', '\U0001F600']

FIXED = [
    ('not-xml', 'this is not xml at all <<<'),
    ('empty', ''),
    ('xml-not-schema', '<html><body>hello</body></html>'),
    ('self-import', '<xs:schema xmlns:xs="http://www.w3.org/2001/XMLSchema" targetNamespace="urn:a" xmlns:a="urn:a" elementFormDefault="qualified"><xs:import namespace="urn:a" schemaLocation="main.xsd"/><xs:complexType name="T"><xs:sequence><xs:element name="x" type="xs:string"/></xs:sequence></xs:complexType></xs:schema>'),
    ('self-extending-type', '<xs:schema xmlns:xs="http://www.w3.org/2001/XMLSchema" targetNamespace="urn:a" xmlns:a="urn:a" elementFormDefault="qualified"><xs:complexType name="T"><xs:complexContent><xs:extension base="a:T"><xs:sequence><xs:element name="x" type="xs:string"/></xs:sequence></xs:extension></xs:complexContent></xs:complexType></xs:schema>'),
    ('self-ref-element', '<xs:schema xmlns:xs="http://www.w3.org/2001/XMLSchema" targetNamespace="urn:a" xmlns:a="urn:a" elementFormDefault="qualified"><xs:element name="E"><xs:complexType><xs:sequence><xs:element ref="a:E" minOccurs="0"/></xs:sequence></xs:complexType></xs:element></xs:schema>'),
    ('mutual-extension-2', '<xs:schema xmlns:xs="http://www.w3.org/2001/XMLSchema" targetNamespace="urn:a" xmlns:a="urn:a" elementFormDefault="qualified"><xs:complexType name="Alpha"><xs:complexContent><xs:extension base="a:Beta"><xs:sequence><xs:element name="fAlpha" type="xs:string"/></xs:sequence></xs:extension></xs:complexContent></xs:complexType><xs:complexType name="Beta"><xs:complexContent><xs:extension base="a:Alpha"><xs:sequence><xs:element name="fBeta" type="xs:string"/></xs:sequence></xs:extension></xs:complexContent></xs:complexType></xs:schema>'),
    ('mutual-extension-3', '<xs:schema xmlns:xs="http://www.w3.org/2001/XMLSchema" targetNamespace="urn:a" xmlns:a="urn:a" elementFormDefault="qualified"><xs:complexType name="Alpha"><xs:complexContent><xs:extension base="a:Beta"><xs:sequence><xs:element name="fAlpha" type="xs:string"/></xs:sequence></xs:extension></xs:complexContent></xs:complexType><xs:complexType name="Beta"><xs:complexContent><xs:extension base="a:Gamma"><xs:sequence><xs:element name="fBeta" type="xs:string"/></xs:sequence></xs:extension></xs:complexContent></xs:complexType><xs:complexType name="Gamma"><xs:complexContent><xs:extension base="a:Alpha"><xs:sequence><xs:element name="fGamma" type="xs:string"/></xs:sequence></xs:extension></xs:complexContent></xs:complexType></xs:schema>'),
    ('mutual-element-refs', '<xs:schema xmlns:xs="http://www.w3.org/2001/XMLSchema" targetNamespace="urn:a" xmlns:a="urn:a" elementFormDefault="qualified"><xs:element name="Ping"><xs:complexType><xs:sequence><xs:element ref="a:Pong" minOccurs="0"/></xs:sequence></xs:complexType></xs:element><xs:element name="Pong"><xs:complexType><xs:sequence><xs:element ref="a:Ping" minOccurs="0"/></xs:sequence></xs:complexType></xs:element></xs:schema>'),
    ('element-ref-cycle-3', '<xs:schema xmlns:xs="http://www.w3.org/2001/XMLSchema" targetNamespace="urn:a" xmlns:a="urn:a" elementFormDefault="qualified"><xs:element name="One"><xs:complexType><xs:sequence><xs:element ref="a:Two" minOccurs="0"/></xs:sequence></xs:complexType></xs:element><xs:element name="Two"><xs:complexType><xs:sequence><xs:element ref="a:Three" minOccurs="0"/></xs:sequence></xs:complexType></xs:element><xs:element name="Three"><xs:complexType><xs:sequence><xs:element ref="a:One" minOccurs="0"/></xs:sequence></xs:complexType></xs:element></xs:schema>'),
    ('extension-of-missing-base', '<xs:schema xmlns:xs="http://www.w3.org/2001/XMLSchema" targetNamespace="urn:a" xmlns:a="urn:a" elementFormDefault="qualified"><xs:complexType name="Alpha"><xs:complexContent><xs:extension base="a:Nowhere"><xs:sequence><xs:element name="fAlpha" type="xs:string"/></xs:sequence></xs:extension></xs:complexContent></xs:complexType></xs:schema>'),
    ('empty-schema', '<xs:schema xmlns:xs="http://www.w3.org/2001/XMLSchema" targetNamespace="urn:a" xmlns:a="urn:a" elementFormDefault="qualified"></xs:schema>'),
    ('schema-without-components-but-import', '<xs:schema xmlns:xs="http://www.w3.org/2001/XMLSchema" targetNamespace="urn:a" xmlns:a="urn:a" elementFormDefault="qualified"><xs:import namespace="urn:b"/></xs:schema>'),
    ('deep-nested-sequences', '<xs:schema xmlns:xs="http://www.w3.org/2001/XMLSchema" targetNamespace="urn:a" xmlns:a="urn:a" elementFormDefault="qualified"><xs:complexType name="Deep"><xs:sequence><xs:sequence><xs:sequence><xs:sequence><xs:sequence><xs:sequence><xs:sequence><xs:sequence><xs:sequence><xs:sequence><xs:sequence><xs:sequence><xs:sequence><xs:sequence><xs:sequence><xs:sequence><xs:sequence><xs:sequence><xs:sequence><xs:sequence><xs:sequence><xs:sequence><xs:sequence><xs:sequence><xs:sequence><xs:sequence><xs:sequence><xs:sequence><xs:sequence><xs:sequence><xs:sequence><xs:sequence><xs:sequence><xs:sequence><xs:sequence><xs:sequence><xs:sequence><xs:sequence><xs:sequence><xs:sequence><xs:sequence><xs:sequence><xs:sequence><xs:sequence><xs:sequence><xs:sequence><xs:sequence><xs:sequence><xs:sequence><xs:sequence><xs:sequence><xs:sequence><xs:sequence><xs:sequence><xs:sequence><xs:sequence><xs:sequence><xs:sequence><xs:sequence><xs:sequence><xs:sequence><xs:sequence><xs:sequence><xs:sequence><xs:sequence><xs:sequence><xs:sequence><xs:sequence><xs:sequence><xs:sequence><xs:sequence><xs:sequence><xs:sequence><xs:sequence><xs:sequence><xs:sequence><xs:sequence><xs:sequence><xs:sequence><xs:sequence><xs:sequence><xs:sequence><xs:sequence><xs:sequence><xs:sequence><xs:sequence><xs:sequence><xs:sequence><xs:sequence><xs:sequence><xs:sequence><xs:sequence><xs:sequence><xs:sequence><xs:sequence><xs:sequence><xs:sequence><xs:sequence><xs:sequence><xs:sequence><xs:sequence><xs:sequence><xs:sequence><xs:sequence><xs:sequence><xs:sequence><xs:sequence><xs:sequence><xs:sequence><xs:sequence><xs:sequence><xs:sequence><xs:sequence><xs:sequence><xs:sequence><xs:sequence><xs:sequence><xs:sequence><xs:sequence><xs:sequence><xs:sequence><xs:sequence><xs:sequence><xs:sequence><xs:sequence><xs:sequence><xs:sequence><xs:sequence><xs:sequence><xs:sequence><xs:sequence><xs:sequence><xs:sequence><xs:sequence><xs:sequence><xs:sequence><xs:sequence><xs:sequence><xs:sequence><xs:sequence><xs:sequence><xs:sequence><xs:sequence><xs:sequence><xs:sequence><xs:sequence><xs:sequence><xs:sequence><xs:sequence><xs:sequence><xs:sequence><xs:sequence><xs:sequence><xs:sequence><xs:sequence><xs:sequence><xs:sequence><xs:sequence><xs:sequence><xs:sequence><xs:sequence><xs:sequence><xs:sequence><xs:sequence><xs:sequence><xs:sequence><xs:sequence><xs:sequence><xs:sequence><xs:sequence><xs:sequence><xs:sequence><xs:sequence><xs:sequence><xs:sequence><xs:sequence><xs:sequence><xs:sequence><xs:sequence><xs:sequence><xs:sequence><xs:sequence><xs:sequence><xs:sequence><xs:sequence><xs:sequence><xs:sequence><xs:sequence><xs:sequence><xs:sequence><xs:sequence><xs:sequence><xs:sequence><xs:sequence><xs:sequence><xs:sequence><xs:sequence><xs:sequence><xs:sequence><xs:sequence><xs:element name="x" type="xs:string"/></xs:sequence></xs:sequence></xs:sequence></xs:sequence></xs:sequence></xs:sequence></xs:sequence></xs:sequence></xs:sequence></xs:sequence></xs:sequence></xs:sequence></xs:sequence></xs:sequence></xs:sequence></xs:sequence></xs:sequence></xs:sequence></xs:sequence></xs:sequence></xs:sequence></xs:sequence></xs:sequence></xs:sequence></xs:sequence></xs:sequence></xs:sequence></xs:sequence></xs:sequence></xs:sequence></xs:sequence></xs:sequence></xs:sequence></xs:sequence></xs:sequence></xs:sequence></xs:sequence></xs:sequence></xs:sequence></xs:sequence></xs:sequence></xs:sequence></xs:sequence></xs:sequence></xs:sequence></xs:sequence></xs:sequence></xs:sequence></xs:sequence></xs:sequence></xs:sequence></xs:sequence></xs:sequence></xs:sequence></xs:sequence></xs:sequence></xs:sequence></xs:sequence></xs:sequence></xs:sequence></xs:sequence></xs:sequence></xs:sequence></xs:sequence></xs:sequence></xs:sequence></xs:sequence></xs:sequence></xs:sequence></xs:sequence></xs:sequence></xs:sequence></xs:sequence></xs:sequence></xs:sequence></xs:sequence></xs:sequence></xs:sequence></xs:sequence></xs:sequence></xs:sequence></xs:sequence></xs:sequence></xs:sequence></xs:sequence></xs:sequence></xs:sequence></xs:sequence></xs:sequence></xs:sequence></xs:sequence></xs:sequence></xs:sequence></xs:sequence></xs:sequence></xs:sequence></xs:sequence></xs:sequence></xs:sequence></xs:sequence></xs:sequence></xs:sequence></xs:sequence></xs:sequence></xs:sequence></xs:sequence></xs:sequence></xs:sequence></xs:sequence></xs:sequence></xs:sequence></xs:sequence></xs:sequence></xs:sequence></xs:sequence></xs:sequence></xs:sequence></xs:sequence></xs:sequence></xs:sequence></xs:sequence></xs:sequence></xs:sequence></xs:sequence></xs:sequence></xs:sequence></xs:sequence></xs:sequence></xs:sequence></xs:sequence></xs:sequence></xs:sequence></xs:sequence></xs:sequence></xs:sequence></xs:sequence></xs:sequence></xs:sequence></xs:sequence></xs:sequence></xs:sequence></xs:sequence></xs:sequence></xs:sequence></xs:sequence></xs:sequence></xs:sequence></xs:sequence></xs:sequence></xs:sequence></xs:sequence></xs:sequence></xs:sequence></xs:sequence></xs:sequence></xs:sequence></xs:sequence></xs:sequence></xs:sequence></xs:sequence></xs:sequence></xs:sequence></xs:sequence></xs:sequence></xs:sequence></xs:sequence></xs:sequence></xs:sequence></xs:sequence></xs:sequence></xs:sequence></xs:sequence></xs:sequence></xs:sequence></xs:sequence></xs:sequence></xs:sequence></xs:sequence></xs:sequence></xs:sequence></xs:sequence></xs:sequence></xs:sequence></xs:sequence></xs:sequence></xs:sequence></xs:sequence></xs:sequence></xs:sequence></xs:sequence></xs:sequence></xs:sequence></xs:sequence></xs:sequence></xs:sequence></xs:sequence></xs:sequence></xs:sequence></xs:sequence></xs:sequence></xs:complexType></xs:schema>'),
    ('occurrence-products', '<xs:schema xmlns:xs="http://www.w3.org/2001/XMLSchema" targetNamespace="urn:a" xmlns:a="urn:a" elementFormDefault="qualified">'
     '<xs:complexType name="Big"><xs:sequence><xs:sequence maxOccurs="65536"><xs:element name="a" type="xs:int" maxOccurs="65536"/>'
     '<xs:choice maxOccurs="4294967295"><xs:element name="b" type="xs:int" maxOccurs="4294967295"/><xs:element name="c" type="xs:int" minOccurs="0" maxOccurs="2"/></xs:choice></xs:sequence>'
     '<xs:sequence maxOccurs="4294967296"><xs:sequence maxOccurs="4294967296"><xs:element name="d" type="xs:int" maxOccurs="4294967296"/></xs:sequence></xs:sequence>'
     '<xs:element name="e" type="xs:int" maxOccurs="18446744073709551615"/><xs:element name="f" type="xs:int" maxOccurs="18446744073709551616"/>'
     '<xs:element name="g" type="xs:int" minOccurs="4294967296" maxOccurs="unbounded"/><xs:element name="h" type="xs:int" maxOccurs="-1"/><xs:element name="i" type="xs:int" maxOccurs="0"/>'
     '</xs:sequence></xs:complexType></xs:schema>'),
    # two recorded findings (known_findings.json): exponential re-reading of forward references, and unbounded recursion depth
    ('forward-ref-chain-doubled-22', '<xs:schema xmlns:xs="http://www.w3.org/2001/XMLSchema" targetNamespace="urn:a" xmlns:a="urn:a" elementFormDefault="qualified">'
     + ''.join(f'<xs:element name="E{i}"><xs:complexType><xs:sequence><xs:element ref="a:E{i + 1}"/><xs:element ref="a:E{i + 1}" minOccurs="0"/></xs:sequence></xs:complexType></xs:element>' for i in range(22))
     + '<xs:element name="E22" type="xs:string"/></xs:schema>'),
    ('nested-sequences-10000', '<xs:schema xmlns:xs="http://www.w3.org/2001/XMLSchema" targetNamespace="urn:a" xmlns:a="urn:a" elementFormDefault="qualified"><xs:complexType name="Deep">'
     + '<xs:sequence>' * 10000 + '<xs:element name="x" type="xs:string"/>' + '</xs:sequence>' * 10000 + '</xs:complexType></xs:schema>'),
    ('enumeration-without-value', '<xs:schema xmlns:xs="http://www.w3.org/2001/XMLSchema" targetNamespace="urn:a"><xs:simpleType name="T"><xs:restriction base="xs:string"><xs:enumeration/></xs:restriction></xs:simpleType></xs:schema>'),
]


# schemaLocation is schema-supplied text that the library turns into a file name: path shapes that are unusual but possible in the wild
LOCATION_SHAPES = ['..\\common\\types.xsd', 'types..xsd', 'v1..2/types.xsd', 'common/..', '..', '../..', './', '/', '', 'a/../../b.xsd', './././x.xsd',
                   'file:///etc/x.xsd', 'http://example.org/x.xsd?a=../b', 'x.xsd#frag', '%2e%2e/x.xsd', 'dir/', '\u00e9\u00e9/..\u00e9.xsd', 'a' * 5000 + '.xsd']
FIXED += [(f'import-location-shape-{k}', '<xs:schema xmlns:xs="http://www.w3.org/2001/XMLSchema" targetNamespace="urn:a" xmlns:a="urn:a" xmlns:b="urn:b" elementFormDefault="qualified">'
           f'<xs:import namespace="urn:b" schemaLocation="{loc}"/><xs:complexType name="T"><xs:sequence><xs:element name="x" type="xs:string"/></xs:sequence></xs:complexType></xs:schema>')
          for k, loc in enumerate(LOCATION_SHAPES)]


# names are schema-supplied text too: NCNames with multi-byte characters at every small byte offset (byte-indexed slicing / truncation of a
# QName panics in the middle of a character), used as element / type / attribute name and as the target of ref=, type=, base=
NON_ASCII_NAMES = ['\u65e5\u672c\u8a9e', 'H\u00f6he', '\u540d\u524d', 'a\u00e9', '\u00fc', 'ab\u00e9', 'abc\u00e9d', 'x\u20acy', 'xm\u00fc', 'xml\u00e9', 'abcd\u00e9', '\u00e9abc', 'Stra\u00dfe_\u00f1']
FIXED += [(f'non-ascii-name-{k}', '<xs:schema xmlns:xs="http://www.w3.org/2001/XMLSchema" targetNamespace="urn:a" xmlns:a="urn:a" xmlns:t="urn:a" elementFormDefault="qualified">'
           f'<xs:element name="{n}" type="xs:string"/><xs:simpleType name="S{n}"><xs:restriction base="xs:string"><xs:maxLength value="3"/><xs:enumeration value="{n}"/></xs:restriction></xs:simpleType>'
           f'<xs:complexType name="B{n}"><xs:sequence><xs:element name="{n}" type="a:S{n}"/><xs:element ref="t:{n}" minOccurs="0"/><xs:element ref="{n}" maxOccurs="unbounded"/></xs:sequence><xs:attribute name="{n}" type="xs:string"/></xs:complexType>'
           f'<xs:complexType name="{n}"><xs:complexContent><xs:extension base="t:B{n}"><xs:sequence><xs:element name="own" type="t:S{n}"/></xs:sequence></xs:extension></xs:complexContent></xs:complexType>'
           f'<xs:element name="E{n}" type="a:{n}"/></xs:schema>')
          for k, n in enumerate(NON_ASCII_NAMES)]


def search(repo: str = REPO, tier: str = 'quick', seed: int = 0) -> dict:
    rng = random.Random(seed)
    root = os.path.join(scratch(), 'c13')
    shutil.rmtree(root, ignore_errors=True)
    os.makedirs(root)
    per_doc = 30 if tier == 'quick' else 250
    manifest, kinds = [], []
    n = 0
    for start, files in _bases():
        text = open(start, encoding='utf-8').read()
        for kind, mt in _mutants_of(text, rng, per_doc):
            d = os.path.join(root, f'm{n:05d}')
            os.makedirs(d)
            for f in files:
                if f != start:
                    shutil.copy(f, d)
            p = os.path.join(d, os.path.basename(start))
            open(p, 'w', encoding='utf-8').write(mt)
            manifest.append(p)
            kinds.append(f'{os.path.relpath(start, VERIF)}:{kind}')
            n += 1
    for kind, text in FIXED:
        d = os.path.join(root, f'm{n:05d}')
        os.makedirs(d)
        p = os.path.join(d, 'main.xsd')
        open(p, 'w', encoding='utf-8').write(text)
        manifest.append(p)
        kinds.append('fixed:' + kind)
        n += 1
    # mutual import
    d = os.path.join(root, f'm{n:05d}')
    os.makedirs(d)
    for a, b in (('main', 'other'), ('other', 'main')):
        open(os.path.join(d, a + '.xsd'), 'w').write(f'<xs:schema xmlns:xs="http://www.w3.org/2001/XMLSchema" targetNamespace="urn:{a}" xmlns:t="urn:{a}" elementFormDefault="qualified"><xs:import namespace="urn:{b}" schemaLocation="{b}.xsd"/><xs:complexType name="T{a}"><xs:sequence><xs:element name="x" type="xs:string"/></xs:sequence></xs:complexType></xs:schema>')
    manifest.append(os.path.join(d, 'main.xsd'))
    kinds.append('fixed:mutual-import')
    mf = os.path.join(root, 'manifest.txt')
    open(mf, 'w').write('\n'.join(manifest) + '\n')
    res = {'mutants': len(manifest), 'completed': 0, 'anomalies': [], 'outcomes': {}, 'slowest_ms': 0, 'per_input_timeout_s': HANG_S}
    start_at, restarts = 0, 0
    outp = ''
    while start_at < len(manifest) and restarts <= 6:
        os.environ['VERIF_C13_START'] = str(start_at)
        try:
            rc, outp = run_test_module(MODULE % (mf, HANG_S), 'verif_c13_mutants::run', repo, timeout=1800)
        finally:
            os.environ.pop('VERIF_C13_START', None)
        started = None
        ended = False
        hang = None
        for line in outp.splitlines():
            m = re.match(r'^(?:test \S+ \.\.\. )?M\|(\w+)\|([\w-]+)\|(\d+)$', line)
            if not m:
                continue
            i, st, ms = m.group(1), m.group(2), int(m.group(3))
            if i == 'end':
                ended = True
                continue
            i = int(i)
            if st == 'start':
                started = i
                continue
            res['completed'] += 1
            res['outcomes'][st] = res['outcomes'].get(st, 0) + 1
            res['slowest_ms'] = max(res['slowest_ms'], ms)
            if st == 'PANIC':
                res['anomalies'].append({'mutant': kinds[i], 'observed': 'panic', 'file': manifest[i], 'text': open(manifest[i], encoding='utf-8').read()[:3000]})
            elif st == 'HANG':
                hang = i
                res['anomalies'].append({'mutant': kinds[i], 'observed': f'did not return within {HANG_S} s (hang)', 'file': manifest[i],
                                         'text': open(manifest[i], encoding='utf-8').read()[:3000]})
        if ended:
            break
        if hang is not None:
            start_at = hang + 1
        elif started is not None:
            res['anomalies'].append({'mutant': kinds[started], 'observed': 'process aborted (stack overflow?) while processing this input',
                                     'file': manifest[started], 'text': open(manifest[started], encoding='utf-8').read()[:3000]})
            start_at = started + 1
        else:
            break
        restarts += 1
    res['restarts_after_hang_or_abort'] = restarts
    if res['completed'] == 0 and not res['anomalies']:
        res['error'] = outp[-1500:]
    return res
