"""Injection half of C14: analysis of the format sites (write! / writeln! / format!) of the writer functions.

For every placeholder of every format string the lexical CONTEXT in which the formatted text lands in the output is computed
from the template itself (the template is lexed as Rust with the placeholders replaced by markers): inside a string literal,
inside a comment, or in code position.  The requirement on the argument follows from the context:

    {x:?}            nothing (Debug of a string is a Rust string literal that evaluates to the text; of a number, a number)
    {x} in a literal lit_ok(x):  no quote, backslash or line terminator, i.e. may sit raw between double quotes
    {x} in a comment line_ok(x): no line terminator
    {x} in code      code_ok(x): identifier / path characters only, or a number

These requirements become ghost assertions spliced before the statement that contains the macro (additive), and are then proof
obligations of unit W's functions, labelled `<fn>#inj<k>-<context>`.  Facts that discharge them: contracts of the sanitisers
(case conversion, keyword renaming, service_type_name), integer types, Url's Display, and the class invariants of the data
model (contracts/J_spec.rs: which fields hold sanitised identifiers) -- those invariants are ASSUMED for values built by the
unverified reader and are checked dynamically by the replay harness (vp/units/j_replay.py)."""
from __future__ import annotations
import re
from dataclasses import dataclass
from typing import List, Optional, Tuple

from ..rustlex import lex, LexError, match_close, _next_sig, Item

MACROS = ('write', 'writeln', 'format')


@dataclass
class Hole:
    index: int            # ordinal of the placeholder in the template
    arg: Optional[str]    # argument expression text (None: could not be determined)
    debug: bool
    ctx: str              # literal | comment | code | unknown


@dataclass
class Site:
    macro: str
    tok: int              # token index of the macro name
    close: int            # token index of the closing paren
    template: str
    holes: List[Hole]
    stmt: int             # token index where the enclosing statement starts
    in_closure: bool


def _unescape_rust(lit: str) -> Optional[str]:
    if not lit.startswith('"'):
        return None          # raw / byte strings: not used for templates here
    body = lit[1:-1]
    out, i = [], 0
    while i < len(body):
        c = body[i]
        if c != '\\':
            out.append(c); i += 1; continue
        n = body[i + 1]
        if n == 'n': out.append('\n'); i += 2
        elif n == 't': out.append('\t'); i += 2
        elif n == 'r': out.append('\r'); i += 2
        elif n in '\\"\'': out.append(n); i += 2
        elif n == '\n':
            i += 2
            while i < len(body) and body[i].isspace():
                i += 1
        else:
            return None
    return ''.join(out)


def _split_args(toks, lo, hi) -> List[Tuple[int, int]]:
    """top-level comma separated argument token ranges in (lo, hi)"""
    out, depth, a = [], 0, lo
    k = lo
    while k < hi:
        t = toks[k]
        if t.kind == 'punct':
            if t.text in '([{':
                depth += 1
            elif t.text in ')]}':
                depth -= 1
            elif t.text == ',' and depth == 0:
                out.append((a, k)); a = k + 1
        k += 1
    if any(toks[j].kind not in ('ws', 'comment', 'doc') for j in range(a, hi)):
        out.append((a, hi))
    return out


def _text(it: Item, a: int, b: int) -> str:
    return ' '.join(it.src[it.toks[a].start:it.toks[b - 1].end].split()) if b > a else ''


def parse_template(tpl: str):
    """[(kind, value)] kind in text|hole ; hole value = (name_or_index_or_None, debug)"""
    parts, i, buf = [], 0, []
    while i < len(tpl):
        c = tpl[i]
        if c == '{':
            if tpl.startswith('{{', i):
                buf.append('{'); i += 2; continue
            j = tpl.index('}', i)
            spec = tpl[i + 1:j]
            name, _, fmt = spec.partition(':')
            parts.append(('text', ''.join(buf))); buf = []
            parts.append(('hole', (name.strip() or None, '?' in fmt)))
            i = j + 1
            continue
        if c == '}':
            if tpl.startswith('}}', i):
                buf.append('}'); i += 2; continue
            buf.append('}'); i += 1; continue
        buf.append(c); i += 1
    parts.append(('text', ''.join(buf)))
    return parts


def contexts(parts) -> List[str]:
    """lexical context of every hole, from lexing the template with markers"""
    MARK = 'ZQHOLE%dZQ'
    text, n = '', 0
    for kind, v in parts:
        if kind == 'text':
            text += v
        else:
            text += MARK % n
            n += 1
    if n == 0:
        return []
    try:
        toks = lex(text)
    except LexError:
        # an unterminated literal/comment in the template: decide what we can from the prefix before the trouble
        return ['unknown'] * n
    ctx = ['unknown'] * n
    for t in toks:
        for m in re.finditer(r'ZQHOLE(\d+)ZQ', t.text):
            k = int(m.group(1))
            ctx[k] = {'string': 'literal', 'comment': 'comment', 'doc': 'comment'}.get(t.kind, 'code')
    return ctx


def sites_of(fn: Item) -> List[Site]:
    toks = fn.toks
    out = []
    k = fn.open + 1
    while k < fn.last:
        t = toks[k]
        if t.kind == 'ident' and t.text in MACROS:
            j = _next_sig(toks, k + 1)
            if toks[j].text == '!':
                p = _next_sig(toks, j + 1)
                if toks[p].text in '([{':
                    cl = match_close(toks, p)
                    args = _split_args(toks, p + 1, cl)
                    if t.text != 'format' and args:
                        args = args[1:]            # the sink
                    if args:
                        f0 = [x for x in range(args[0][0], args[0][1]) if toks[x].kind not in ('ws', 'comment', 'doc')]
                        if len(f0) == 1 and toks[f0[0]].kind == 'string':
                            tpl = _unescape_rust(toks[f0[0]].text)
                            if tpl is not None:
                                parts = parse_template(tpl)
                                ctx = contexts(parts)
                                rest = args[1:]
                                named = {}
                                pos = []
                                for (a, b) in rest:
                                    txt = _text(fn, a, b)
                                    m = re.match(r'^(\w+)\s*=\s*(?!=)(.*)$', txt)
                                    if m:
                                        named[m.group(1)] = m.group(2)
                                    else:
                                        pos.append(txt)
                                holes, nxt, hi = [], 0, 0
                                for kind, v in parts:
                                    if kind != 'hole':
                                        continue
                                    name, dbg = v
                                    if name is None:
                                        arg = pos[nxt] if nxt < len(pos) else None
                                        nxt += 1
                                    elif name.isdigit():
                                        arg = pos[int(name)] if int(name) < len(pos) else None
                                    else:
                                        arg = named.get(name, name)
                                    holes.append(Hole(hi, arg, dbg, ctx[hi] if hi < len(ctx) else 'unknown'))
                                    hi += 1
                                stmt, in_closure = _stmt_start(toks, fn.open, k)
                                out.append(Site(t.text, k, cl, tpl, holes, stmt, in_closure))
                    k = cl + 1
                    continue
        k += 1
    return out


def _stmt_start(toks, lo: int, k: int) -> Tuple[int, bool]:
    """token index at which the statement containing token k starts (after the previous `;`, `{` or `}` at the same depth);
    in_closure: a closure parameter list `|..|` lies between that point and k"""
    depth = 0
    j = k - 1
    while j > lo:
        t = toks[j]
        if t.kind == 'punct':
            if t.text in ')]}':
                if t.text == '}' and depth == 0:
                    break
                depth += 1
            elif t.text in '([{':
                if depth == 0:
                    if t.text == '{':
                        break
                    # inside an argument list / index: keep going outwards
                    j -= 1
                    continue
                depth -= 1
            elif t.text == ';' and depth == 0:
                break
        j -= 1
    start = _next_sig(toks, j + 1)
    seg = ''.join(x.text for x in toks[start:k])
    in_closure = bool(re.search(r'\|[^|]*\|\s*$', seg) or re.search(r'\|[^|]*\|', seg))
    return start, in_closure
