"""Helpers shared by the L2 units (functions of the generator itself, zeep-lib/src/**)."""
from __future__ import annotations
import os
import re
from typing import Dict, List, Optional

from ..rustlex import parse_file, Item, walk
from ..splice import Out, AnchorLost, splice_fn, emit_verbatim, _line
from ..core import VERIF, read_sections, trusted_chunk
from .hc import one, child, open_container, close_container, C

SRC = 'zeep-lib/src/'


class Gen:
    def __init__(self, repo: str):
        self.repo = repo
        self._files: Dict[str, List[Item]] = {}
        self.nopq = 0

    def items(self, rel: str) -> List[Item]:
        if rel not in self._files:
            self._files[rel] = parse_file(os.path.join(self.repo, SRC + rel))
        return self._files[rel]

    def top(self, rel: str, kind: str, name_re: str) -> Item:
        got = [c for c in self.items(rel) if c.kind == kind and re.fullmatch(name_re, c.name)]
        if len(got) != 1:
            raise AnchorLost(f'{SRC}{rel}: {kind} {name_re}: expected exactly one match, found {len(got)}')
        return got[0]

    def verbatim(self, out: Out, rel: str, kind: str, name_re: str):
        emit_verbatim(out, self.top(rel, kind, name_re), SRC + rel)

    def opaque(self, out: Out, at: str, ty: str, occurrence: Optional[int] = None, generics: str = '', flex: bool = False, suffix: str = '') -> dict:
        """declare a contract-free external function returning `ty` and return the opaque-rule entry"""
        self.nopq += 1
        name = f'opaque_expr_{self.nopq}'
        trusted_chunk(out, f'    #[verifier::external_body]\n    fn {name}{generics}() -> {ty} {{ unimplemented!() }}\n')
        d = {'at': at, 'type': ty, 'call': f'{name}(){suffix}', 'flex': flex}
        if occurrence is not None:
            d['occurrence'] = occurrence
        return d


def sections(out: Out, fname: str, names: List[str]) -> List[str]:
    t, n = read_sections(os.path.join(C, fname), names)
    trusted_chunk(out, t)
    return n


def spec_section(fname: str, name: str) -> str:
    return read_sections(os.path.join(C, fname), [name])[0]


def emit_const_static(out: Out, it: Item, file: str, opaque_value: bool = False):
    """a `const X: &T = ..` item: Verus' syntax macro wants the implied 'static lifetimes spelled out
    (additive: `&` -> `&'static ` in the type, up to the `=`)"""
    hf = it.head_first
    text = it.src[it.toks[hf].start:it.end]
    eq = text.index('=')
    head = re.sub(r"&(?!\s*')", "&'static ", text[:eq])
    if opaque_value:
        out.spec('    #[verifier::external_body]')
        out.chunks[-1].trusted = True
        out.dropped.append(f'value of const {it.name} ({file}) is opaque to the verifier (array-to-slice coercion in a const is not supported)')
    out.code(head + text[eq:] + '\n', file, it.line_of(it.toks[hf].start))
    out.edits.append(f"const {it.name}: implied 'static lifetimes spelled out")
