"""Unit M — C19: MultiRef<T> of helpers_content.rs::multi_ref is transparent (for all T)."""
from __future__ import annotations
import re
from ..core import Unit
from ..splice import Out
from .hc import HelpersContent
from .r import prelude, HEAD, TAIL


class UnitM(Unit):
    name = 'M'
    props = ('C19',)

    def build(self, repo, probe=False):
        out = Out()
        hc = HelpersContent(repo)
        # contracts of std functions the current tree does not call are added only when the extracted text starts calling them
        on_demand = ['stdspec-arc-count'] if re.search(r'Arc::(strong|weak)_count\s*\(', hc.src) else []
        out.spec(('#![feature(allocator_api)]\n' if on_demand else '') + HEAD)
        self._trusted = prelude(out, on_demand + ['ax-rc', 'ax-parse', 'ax-string-eq', 'ax-tryfrom', 'ax-from-unsigned',
                                      'stdspec-parse', 'stdspec-chars', 'stdspec-bytelen', 'ax-bytelen', 'stdspec-contains'],
                                [('dep_reqwest.rs', ['reqwest-error']),
                                 ('dep_yaserde.rs', ['io-traits', 'io-write-trait-opaque', 'io-traits-end', 'xml', 'yaserde-begin', 'yaserde-traits', 'yaserde-end'])])
        hc.emit_error(out, False, record=False, imported='R')
        hc.emit_restrictions(out, False, record=False, imported='R')
        hc.emit_multi_ref(out, probe)
        out.spec(TAIL)
        return out

    def props_of(self, ob):
        if ob.startswith('multi_ref::'):
            return ['C19', 'C13'] if ob.endswith('#safety') else ['C19']
        return []

    def trusted_base(self):
        return list(self._trusted)
