"""Witness search for C10 on the real RustDocument: every sequence of up to 3 namespace operations (and one merge of two such
documents) over an adversarial URI pool; the table invariants are checked on the real data after each step."""
from __future__ import annotations
import re
from ..replay import run_test_module

MODULE = r'''
#[cfg(test)]
mod verif_replay_d {
    use super::*;
    const URIS: [&str; 14] = ["http://example.org/pr\u{fc}fung", "http://example.org/API/v1", "http://example.org/api/v1", "http://example.org/api/v", "http://example.org/api/_v1", "http://example.org/a/v", "http://example.org/v1/types", "http://example.org/v2/types", "urn:a:typ", "http://x.org/a-types", "http://x.org/ty.pes", "http://example.org/other", "http://example.org/billing/", "http://example.org/billing"];
    const PFX: [&str; 2] = ["a", "b"];
    #[derive(Clone, Copy, Debug)]
    enum Op { Add(usize, usize), Switch(usize) }
    fn ops() -> Vec<Op> {
        let mut v = vec![];
        for p in 0..PFX.len() { for u in 0..URIS.len() { v.push(Op::Add(p, u)); } }
        for u in 0..URIS.len() { v.push(Op::Switch(u)); }
        v
    }
    fn apply(d: &mut RustDocument, op: Op) {
        match op { Op::Add(p, u) => d.add_namespace_reference(PFX[p], URIS[u]), Op::Switch(u) => d.switch_to_target_namespace(URIS[u]) }
    }
    fn check(d: &RustDocument, last: Option<Op>) -> Vec<String> {
        let mut bad = vec![];
        for a in &d.namespaces { for b in &d.namespaces {
            if (a.namespace == b.namespace) != (a.abbreviation == b.abbreviation) {
                bad.push(format!("URI/prefix not a bijection: {}={} vs {}={}", a.namespace, a.abbreviation, b.namespace, b.abbreviation));
            }
        } }
        for a in &d.namespaces { for b in &d.namespaces {
            if (a.namespace == b.namespace) != (a.rust_mod_name == b.rust_mod_name) { bad.push(format!("URI/module not a bijection: {}={} vs {}={}", a.namespace, a.rust_mod_name, b.namespace, b.rust_mod_name)); }
        } }
        for a in &d.namespaces { if a.rust_mod_name != format!("mod_{}", a.abbreviation) { bad.push(format!("module name {} for prefix {}", a.rust_mod_name, a.abbreviation)); } }
        for t in &d.target_namespaces { if !d.namespaces.iter().any(|n| **n == **t) { bad.push(format!("target namespace {} not in table", t.namespace)); } }
        for (k, v) in &d.namespace_lookup { if !d.namespaces.iter().any(|n| **n == **v) { bad.push(format!("binding {k} -> {} not in table", v.namespace)); } }
        if let Some(c) = &d.current_target_namespace { if !d.target_namespaces.iter().any(|n| **n == **c) { bad.push("current target namespace not in list".to_string()); } }
        if let Some(Op::Switch(u)) = last {
            if d.current_target_namespace.as_ref().map(|c| c.namespace.as_str()) != Some(URIS[u]) { bad.push(format!("after switch to {} the current namespace is {:?}", URIS[u], d.current_target_namespace.as_ref().map(|c| c.namespace.clone()))); }
        }
        bad.sort(); bad.dedup(); bad
    }
    #[test]
    fn sequences() {
        let all = ops();
        let mut n = 0usize;
        let mut docs: Vec<(Vec<Op>, ())> = vec![];
        for &o1 in &all { for &o2 in &all { for &o3 in &all {
            let seq = [o1, o2, o3];
            let mut d = RustDocument::empty();
            for (i, &op) in seq.iter().enumerate() {
                let before: Vec<(String, String)> = d.namespace_lookup.iter().map(|(k, v)| (k.clone(), v.namespace.clone())).collect();
                apply(&mut d, op);
                n += 1;
                for b in check(&d, Some(op)) { println!("D|seq|{:?}|{b}", &seq[..=i]); }
                // a prefix registered by this step is bound to exactly the URI it was declared with (namespace names are compared as strings)
                if let Op::Add(p, u) = op {
                    if !before.iter().any(|(k, _)| k == PFX[p]) {
                        if let Some(v) = d.namespace_lookup.get(PFX[p]) {
                            if v.namespace != URIS[u] { println!("D|seq|{:?}|prefix {} declared for {} is bound to {}", &seq[..=i], PFX[p], URIS[u], v.namespace); }
                        }
                    }
                }
                for (k, u) in before { if d.namespace_lookup.get(&k).map(|v| v.namespace.clone()) != Some(u.clone()) { println!("D|seq|{:?}|binding {k} changed", &seq[..=i]); } }
            }
        } } }
        // many namespaces with the same three-letter stem, registered one after the other (suffixes beyond one digit) and then targeted
        for count in [12usize, 25, 120] {
            let mut d = RustDocument::empty();
            for i in 0..count {
                let before: Vec<(String, String)> = d.namespace_lookup.iter().map(|(k, v)| (k.clone(), v.namespace.clone())).collect();
                let uri = format!("http://example.com/v{i}/types");
                d.add_namespace_reference(&format!("p{i}"), &uri);
                if i % 3 == 0 { d.switch_to_target_namespace(&uri); }
                n += 1;
                for b in check(&d, None) { println!("D|seq|[{} URIs of the form http://example.com/vN/types, registered p0..p{i}]|{b}", i + 1); }
                if d.namespace_lookup.get(&format!("p{i}")).map(|v| v.namespace.clone()) != Some(uri.clone()) { println!("D|seq|[colliding p0..p{i}]|prefix p{i} is not bound to {uri}"); }
                for (k, u) in before { if d.namespace_lookup.get(&k).map(|v| v.namespace.clone()) != Some(u.clone()) { println!("D|seq|[colliding p0..p{i}]|binding {k} changed"); } }
            }
        }
        // merges of two 2-step documents (operations on the last 8 URIs of the pool only: the count grows with the 4th power)
        let some: Vec<Op> = all.iter().copied().filter(|o| match o { Op::Add(_, u) | Op::Switch(u) => *u >= URIS.len() - 8 }).collect();
        for &a1 in &some { for &a2 in &some { for &b1 in &some { for &b2 in &some {
            let mut d = RustDocument::empty(); apply(&mut d, a1); apply(&mut d, a2);
            let mut e = RustDocument::empty(); apply(&mut e, b1); apply(&mut e, b2);
            if !check(&d, None).is_empty() || !check(&e, None).is_empty() { continue; }
            let before: Vec<(String, String)> = d.namespace_lookup.iter().map(|(k, v)| (k.clone(), v.namespace.clone())).collect();
            d.extend(e);
            n += 1;
            for b in check(&d, None) { println!("D|merge|{:?}+{:?}|{b}", [a1, a2], [b1, b2]); }
            for (k, u) in before { if d.namespace_lookup.get(&k).map(|v| v.namespace.clone()) != Some(u.clone()) { println!("D|merge|{:?}+{:?}|binding {k} of the importing document changed", [a1, a2], [b1, b2]); } }
        } } } }
        println!("D|done|{n}|");
    }
}
'''


def _search(repo):
    rc, outp = run_test_module(MODULE, 'verif_replay_d::sequences', repo, host_file='zeep-lib/src/model/doc.rs')
    res = {'steps_checked': 0, 'seq_anomalies': [], 'merge_anomalies': [], 'n_seq': 0, 'n_merge': 0}
    for line in outp.splitlines():
        m = re.match(r'^(?:test \S+ \.\.\. )?D\|(\w+)\|(.*?)\|(.*)$', line)
        if not m:
            continue
        kind, seq, what = m.groups()
        if kind == 'done':
            res['steps_checked'] = int(seq)
        elif kind == 'seq':
            res['n_seq'] += 1
            if len(res['seq_anomalies']) < 8:
                res['seq_anomalies'].append({'operations': seq, 'problem': what})
        elif kind == 'merge':
            res['n_merge'] += 1
            if len(res['merge_anomalies']) < 8:
                res['merge_anomalies'].append({'documents': seq, 'problem': what})
    if res['steps_checked'] == 0:
        res['error'] = outp[-1500:]
    return res


_MEMO = {}


def search(repo, *a, **kw):
    """one run of the harness per check process and tree (the result is shared by all obligations it decides)"""
    key = (repo, a, tuple(sorted(kw.items())))
    if key not in _MEMO:
        _MEMO[key] = _search(repo, *a, **kw)
    return _MEMO[key]
