"""Unit X — C02 (flattening of content models) and C08 (derivation by extension): the functions of structures/complex.rs,
verified against a contract-only stand-in for roxmltree (contracts/dep_misc.rs: roxmltree-node).

What is proved, for ALL document trees (no bound on depth or width):
  * import_sequence_node_fields / import_choice_fields: the output grows by exactly one field per member of the content model, in
    document order, nested sequence / choice groups flattened in place, earlier output untouched, and the recursion terminates;
  * read_sequence_node: the struct's fields are exactly the members of the sequence;
  * import_extension_fields / read_complex_content_node: the fields of a derived type are the fields of the base the document's type
    lookup yields for the QName in `base=` (local name + namespace bound to the prefix), in the base's order, followed by the
    members the extension declares.
"f is the field of node n" is the uninterpreted relation `is_field_of` established by the contract of Field::try_from_node.
"""
from __future__ import annotations
import os
from ..core import Unit
from ..splice import Out, AnchorLost, splice_fn, emit_verbatim
from .gen import Gen, SRC, sections, spec_section
from .hc import child, open_container, close_container
from .r import HEAD, TAIL, prelude
from .w import UnitW, MOD_HEAD

ELEM_CHILDREN_NOTE = ('the element children of the node as a Vec, in document order (assumed contract on roxmltree `children()` + std `filter`: '
                      'dep_misc.rs roxmltree-node `element_children`)')
INDEX_LOOP_NOTE = ('index loop over the same Vec (Verus: "for-loops do not yet support continue"); the loop body tokens are unchanged and the '
                   'element is bound and the index advanced before the body, so `continue` has the meaning it has in the for loop')
CLONE_FROM_NOTE = ('`a.clone_from(&b)` is `*a = b.clone()` (definition of Clone::clone_from; Verus: "does not yet support clone_from")')

BROADCAST = '    broadcast use {crate::roxmltree::kid_lower, lemma_appended_trans};'


def reveal(*lits):
    return '    proof { ' + ' '.join(f'reveal_strlit("{l}");' for l in lits) + ' }'


GROUPS_HINT = '''
        proof {
            broadcast use crate::roxmltree::anc_chain;
            assert(groups@.as_ref().unref() =~= groups@);
            lemma_groups(node, groups@);
        }
'''

FLAGS_HINT = '''
        proof { lemma_flags(node, groups@, parent_is_vec, parent_is_optional, in_choice); }
'''

UNIQ_EXT = '''
        let ghost start = base_fields@;
        let ghost base0 = base;
        proof {
            assert(first_ext(*old(node), base));
            assert forall|e: Node| first_ext(*old(node), e) implies e == base0 by {
                let i = choose|i: int| 0 <= i < all_kids(*old(node)).len() && #[trigger] all_kids(*old(node))[i] == e && is_ext(e) && forall|j: int| 0 <= j < i ==> !is_ext(#[trigger] all_kids(*old(node))[j]);
                let k = choose|i: int| 0 <= i < all_kids(*old(node)).len() && #[trigger] all_kids(*old(node))[i] == base0 && is_ext(base0) && forall|j: int| 0 <= j < i ==> !is_ext(#[trigger] all_kids(*old(node))[j]);
                if i < k { assert(!is_ext(all_kids(*old(node))[i])); }
                if k < i { assert(!is_ext(all_kids(*old(node))[k])); }
            }
            assert(attr(base, "base"@) is Some);
            let q = attr(base, "base"@)->0;
            assert(Some(base_node) == type_lookup(*old(doc), *node, local_of(q), crate::stdspec::as_deref_spec(&bound_of_qname(*old(doc), q))));
            assert(base_fields_of(*old(doc), *node, base) is Some);
            assert(appended(start, start, Seq::<Node>::empty()));
            match &base_node.rust_type { RustType::Complex(p) => { assert(start =~= p.fields@); }, _ => { assert(start == (*old(base_fields))@); } }
        }
'''


class UnitX(Unit):
    name = 'X'
    props = ('C02', 'C08')
    parts = ('field', 'flatten', 'extension', 'complex_type')

    def _splice(self, out, it, file, fid, **kw):
        """splice_fn, except that a lost anchor in THIS function does not blind the unit: the function is then emitted as a declaration with its
        contract (so that its callers are still verified against it) and its own clauses are recorded as undecided (decided by the replay, or exit 2)"""
        snap = (len(out.chunks), dict(out.fns), len(out.edits), len(out.dropped), dict(out.unconstrained), len(out.imported))
        try:
            return splice_fn(out, it, file, fid, **kw)
        except AnchorLost as e:
            del out.chunks[snap[0]:]
            out.fns = snap[1]
            del out.edits[snap[2]:]
            del out.dropped[snap[3]:]
            out.unconstrained = snap[4]
            del out.imported[snap[5]:]
            out._cur_fn = None
            keep = {k: kw[k] for k in ('ensures', 'requires', 'origin') if k in kw}
            # declaration only: the body is dropped (it may use constructs the stand-ins do not have), the contract stays for the callers
            out.spec('    #[verifier::external_body]')
            out.chunks[-1].trusted = True
            splice_fn(out, it, file, fid, drop_body=True, **keep)
            if out.chunks[-1].text.strip() == ';':
                out.chunks[-1].text = '{ unimplemented!() }\n'
            out.imported.append(f'{fid}: NOT VERIFIED in this run (anchor lost: {e}); emitted as a declaration with its contract, its clauses are undecided')
            self.lost.append((fid, [f'{fid}#{lab}' for lab, _ in kw.get('ensures', ())], str(e)))
            return None

    def build(self, repo, probe=False):
        out = Out()
        G = Gen(repo)
        self.lost = []
        out.spec('#![feature(allocator_api)]\n#![feature(pattern)]\n#![allow(unused_imports)]\n' + HEAD)
        self._trusted = prelude(out, ['ax-rc', 'ax-string-eq', 'ax-str-ext', 'ax-display-ref', 'ax-hash-string', 'ax-split-once', 'stdspec-contains',
                                      'stdspec-as-deref', 'stdspec-option-combinators', 'stdspec-split-once', 'stdspec-string-eq-str', 'stdspec-starts-with', 'stdspec-trim',
                                      'stdspec-slice-iter', 'ax-slice-iter', 'ax-trim'])
        self._trusted += sections(out, 'dep_io.rs', ['io-write-ghost'])
        self._trusted += sections(out, 'dep_misc.rs', ['inflector', 'url', 'roxmltree-node'])
        out.spec(MOD_HEAD.replace('broadcast use crate::ax::display_ref;',
                                  'broadcast use {crate::ax::display_ref, crate::ax::rc_clone_eq, crate::ax::string_peq, crate::ax::str_ext, '
                                  'crate::ax::string_key_model, crate::ax::string_of_view, crate::ax::view_string_of, crate::ax::borrowed_string_key, crate::ax::borrowed_string_value, '
                                  'crate::ax::split_once_char, crate::ax::iter_seq_is_remaining, crate::ax::trim_idempotent, vstd::std_specs::hash::group_hash_axioms};\n'
                                  '    use crate::stdspec::{peq, split_once_spec};\n    use crate::ax::string_of;\n'
                                  '    use crate::roxmltree::{Node, anc, all_kids, attr, tag, is_elem, parent_of, elem_kids, height, element_children};'))
        w = UnitW()
        w._trusted = []
        w.emit_types(out, G)
        self._trusted += w._trusted
        out.spec(spec_section('F_spec.rs', 'qname-spec'))
        with_field = os.environ.get('VERIF_X_FIELD', '1') != '0'
        if self.parts == ('facets',):
            # unit XR: only the facet-reading functions of structures/restrictions.rs (kept apart so that a change to complex.rs / field.rs
            # cannot make the C07 check inconclusive)
            out.spec(spec_section('X_spec.rs', 'facet-spec'))
            self._trusted += sections(out, 'X_glue.rs', ['restrictions-default'])
            self.emit_facets(out, G, probe)
            out.spec(spec_section('X_spec.rs', 'simple-type-spec'))
            G.verbatim(out, 'model/mod.rs', 'trait', 'TryFromNode')
            self._trusted += sections(out, 'X_glue.rs', ['simple-callees'])
            self.emit_simple(out, G, probe)
            out.spec('}\n' + TAIL)
            return out
        out.spec(spec_section('X_spec.rs', 'field-flags-spec' if with_field else 'field-relation-uninterp'))
        out.spec(spec_section('X_spec.rs', 'flatten-spec'))
        G.verbatim(out, 'model/mod.rs', 'trait', 'TryFromNode')
        if with_field:
            self._trusted += sections(out, 'X_glue.rs', ['field-callees', 'callees', 'field-clone'])
            self.emit_field(out, G, probe)
            self._trusted.append('assumed on zeep code: RustDocument::find_type_by_xml_name is a function of its arguments (type_lookup)')
        else:
            self._trusted += sections(out, 'X_glue.rs', ['field-try-from-node', 'callees', 'field-clone'])
            self._trusted.append('assumed on zeep code: RustDocument::find_type_by_xml_name is a function of its arguments (type_lookup); '
                                 'Field::try_from_node is only named (uninterpreted relation is_field_of)')
        out.imported.append('field::resolve_type: contract imported from unit F (body verified there, not here)')
        out.spec(spec_section('X_spec.rs', 'extension-spec'))
        rel = 'model/structures/complex.rs'
        f = SRC + rel
        self.emit_flatten(out, G, rel, f, probe)
        self.emit_extension(out, G, rel, f, probe)
        out.spec(spec_section('X_spec.rs', 'complex-type-spec'))
        self.emit_complex_type(out, G, rel, f, probe)
        out.spec(spec_section('X_spec.rs', 'element-spec'))
        self.emit_element(out, G, probe)
        out.spec(spec_section('X_spec.rs', 'node-spec'))
        self._trusted += sections(out, 'X_glue.rs', ['node-callees'])
        self.emit_node(out, G, probe)
        out.spec('}\n' + TAIL)
        return out

    # ------------------------------------------------------------------------------------------------------------------
    def emit_flatten(self, out, G, rel, f, probe):
        APP = 'res is Ok ==> appended((*old(base_fields))@, (*final(base_fields))@, members(*old(node)))'
        fn = G.top(rel, 'fn', 'import_sequence_node_fields')
        self._splice(out, fn, f, 'complex::import_sequence_node_fields', probe=probe,
                  ensures=[('one-field-per-member-in-order', APP), ('node-unchanged', '*final(node) == *old(node)')],
                  origin={'one-field-per-member-in-order': 'property', 'node-unchanged': 'helper'},
                  decreases='height(*old(node)), 1nat',
                  opaque=[{'at': 'node.children().filter(Node::is_element)', 'call': 'element_children(*node)', 'type': 'Vec<Node>', 'note': ELEM_CHILDREN_NOTE},
                          {'at': 'for mut child in children', 'call': 'let mut i__: usize = 0; while i__ < children.len()', 'type': '-', 'note': INDEX_LOOP_NOTE}],
                  inserts=[{'pos': 'body_start', 'text': BROADCAST + '\n' + reveal('choice', 'sequence', 'attributeGroup')},
                           {'at': 'for mut child in children', 'text': '    let ghost kids = elem_kids(*node);\n    let ghost out0 = base_fields@;'}],
                  loops={0: {'kind': 'for', 'match': 'for mut child in children',
                             'invariants': [('node-fixed', '*node == *old(node)'),
                                            ('children-fixed', 'kids == elem_kids(*node) && children@ == kids && i__ <= children.len()'),
                                            ('fields-so-far', 'appended(out0, base_fields@, flat(*node, i__ as nat))')],
                             'decreases': 'children.len() - i__',
                             'body_prefix': '        let mut child = children[i__]; i__ += 1;\n' + BROADCAST + '\n'
                                            '        proof { assert(child == kids[i__ - 1]); assert(height(child) < height(*node)); }'}})
        out.edits.append('complex::import_sequence_node_fields: the element bound by the loop (`let mut child = children[i__]; i__ += 1;`) is '
                         'inserted at the start of the loop body (see the index-loop presentation)')
        fn = G.top(rel, 'fn', 'import_choice_fields')
        self._splice(out, fn, f, 'complex::import_choice_fields', probe=probe,
                  ensures=[('one-field-per-member-in-order', APP), ('node-unchanged', '*final(node) == *old(node)')],
                  origin={'one-field-per-member-in-order': 'property', 'node-unchanged': 'helper'},
                  decreases='height(*old(node)), 2nat')
        fn = G.top(rel, 'fn', 'read_sequence_node')
        self._splice(out, fn, f, 'complex::read_sequence_node', probe=probe,
                  ensures=[('fields-are-the-members', 'res is Ok ==> fields_are(res->Ok_0.fields@, members(node))'),
                           ('named-as-asked', 'res is Ok ==> res->Ok_0.xml_name@ == element_name@')],
                  origin={'fields-are-the-members': 'property', 'named-as-asked': 'helper'})

    def emit_extension(self, out, G, rel, f, probe):
        LOOKUP = ('type_lookup(*old(doc), *old(node), local_of(attr(e, "base"@)->0), '
                  'crate::stdspec::as_deref_spec(&bound_of_qname(*old(doc), attr(e, "base"@)->0)))')
        fn = G.top(rel, 'fn', 'import_extension_fields')
        # the ghost hint names two locals of the function; their spelling is read from the source so that renaming them is harmless
        import re as _re
        mb = _re.search(r'let\s+(\w+)\s*=\s*doc\s*\.\s*find_type_by_xml_name', fn.body)
        me = _re.search(r'if\s+let\s+Some\(\s*mut\s+(\w+)\s*\)\s*=\s*node', fn.body)
        if not mb or not me:
            raise AnchorLost('complex::import_extension_fields: the locals holding the extension node / the looked-up base were not found')
        bn, en = mb.group(1), me.group(1)
        uniq = _re.sub(r'\bbase_node\b', bn, UNIQ_EXT)
        uniq = _re.sub(r'\bbase\b(?!0|_)', en, uniq) if en != 'base' else uniq
        self._splice(out, fn, f, 'complex::import_extension_fields', probe=probe, loop_isolation=False,
                  ensures=[('node-unchanged', '*final(node) == *old(node)'),
                           ('no-extension-no-change', 'res is Ok && no_ext(*old(node)) ==> (*final(base_fields))@ == (*old(base_fields))@'),
                           ('base-members-then-own',
                            'res is Ok ==> forall|e: Node| first_ext(*old(node), e) ==> { '
                            '&&& base_fields_of(*old(doc), *old(node), e) is Some '
                            f'&&& (match {LOOKUP}->0.rust_type {{ '
                            'RustType::Complex(p) => appended(p.fields@, (*final(base_fields))@, ext_own(e, elem_kids(e).len())), '
                            '_ => appended((*old(base_fields))@, (*final(base_fields))@, ext_own(e, elem_kids(e).len())) }) }')],
                  origin={'node-unchanged': 'helper', 'no-extension-no-change': 'helper', 'base-members-then-own': 'property'},
                  closures=[{'at': '|n| n.is_element() && n.tag_name().name() == "extension"', 'ret': 'b: bool', 'ensures': 'b == is_ext(*n)'},
                            {'at': '|n| n.is_element() && matches!(n.tag_name().name(), "sequence" | "choice")', 'ret': 'b: bool', 'ensures': 'b == is_seq_elem(n)'}],
                  opaque=[{'at': 'base_fields.clone_from(&struct_props.fields)', 'call': '*base_fields = (struct_props.fields).clone()', 'type': '-', 'note': CLONE_FROM_NOTE},
                          {'at': 'base.children().filter(Node::is_element)', 'call': 'element_children(base)', 'type': 'Vec<Node>', 'note': ELEM_CHILDREN_NOTE}],
                  inserts=[{'pos': 'body_start', 'text': BROADCAST + '\n' + reveal('extension', 'sequence', 'choice', 'attribute', 'base')},
                           {'at': 'let has_sequence', 'text': uniq}],
                  loops={0: {'kind': 'for', 'iter': 'it', 'match': 'in base.children()',
                             'invariants': [('extension-fixed', 'base == base0 && it.seq() == elem_kids(base) && has_sequence == has_seq(base)'),
                                            ('fields-so-far', 'appended(start, base_fields@, ext_own(base, it.index@ as nat))')],
                             'body_prefix': BROADCAST + '\n            proof { assert(n == elem_kids(base)[it.index@ as int]); }'}})
        fn = G.top(rel, 'fn', 'read_complex_content_node')
        self._splice(out, fn, f, 'complex::read_complex_content_node', probe=probe,
                  ensures=[('derived-type-is-base-then-own', 'res is Ok ==> cc_ok(*old(doc), node, res->Ok_0.fields@)'),
                           ('named-as-asked', 'res is Ok ==> res->Ok_0.xml_name@ == element_name@')],
                  origin={'derived-type-is-base-then-own': 'property', 'named-as-asked': 'helper'},
                  opaque=[{'at': 'node.children().filter(Node::is_element)', 'call': 'element_children(node)', 'type': 'Vec<Node>', 'note': ELEM_CHILDREN_NOTE}],
                  inserts=[{'pos': 'body_start', 'text': BROADCAST + '\n' + reveal('sequence')},
                           {'at': 'for n in', 'text': '    let ghost node0 = node;\n    let ghost after_ext = base_fields@;'},
                           {'at': 'let struct_props', 'text': '    proof { if no_seq_kid(node) { lemma_cc_own_empty(node, elem_kids(node).len()); assert(base_fields@ =~= after_ext); }\n'
                                                        '        assert forall|e: Node| first_ext(node, e) && ext_simple(e) implies ext_own(e, elem_kids(e).len()) == members(e) by { lemma_ext_own_is_members(e); } }'}],
                  loops={0: {'kind': 'for', 'iter': 'it', 'match': 'in node.children()',
                             'invariants': [('node-fixed', 'node == node0 && it.seq() == elem_kids(node)'),
                                            ('fields-so-far', 'appended(after_ext, base_fields@, cc_own(node, it.index@ as nat))')],
                             'body_prefix': BROADCAST + '\n        proof { assert(n == elem_kids(node)[it.index@ as int]); }'}})

    def emit_field(self, out, G, probe):
        rel = 'model/field.rs'
        f = SRC + rel
        im = G.top(rel, 'impl', r'.*TryFromNode.* for Field')
        open_container(out, im, f)
        for c in im.children:
            if c.kind == 'type':
                emit_verbatim(out, c, f)
        fn = child(im, 'fn', 'try_from_node')
        CH = '|n| n.tag_name().name() == "choice"'
        # the same closure text is used on an Option<Node> (`is_some_and`: the node by value) and on the collected groups (`iter().any`: by
        # reference): which postcondition applies is decided by the call it is passed to, not by its ordinal
        import re as _re
        choice_closures = []
        for k, m in enumerate(_re.finditer(_re.escape(CH), fn.body)):
            before = fn.body[:m.start()].rstrip()
            by_ref = before.endswith('.any(')
            choice_closures.append({'at': CH, 'occurrence': k, 'ensures': 'b == (tag(*n) == "choice"@)' if by_ref else 'b == (tag(n) == "choice"@)'})
        self._splice(out, fn, f, 'field::Field::try_from_node', probe=probe, specified=('take_while', 'starts_with'),
                  ensures=[('flags-follow-the-declaration', 'res is Ok ==> is_field_of(res->Ok_0, node)')],
                  origin={'flags-follow-the-declaration': 'property'},
                  opaque=[{'at': 'target_namespace.clone_from(&doc.current_target_namespace)', 'call': 'target_namespace = (doc.current_target_namespace).clone()',
                           'type': '-', 'note': CLONE_FROM_NOTE}],
                  closures=[{'at': '|n| matches!(n.tag_name().name(), "sequence" | "choice" | "all")', 'ensures': 'b == is_grp3(*n)'},
                            {'at': '|n| n.attribute("minOccurs") == Some("0")', 'ensures': 'b == min0(*n)'},
                            ] + choice_closures + [
                            {'at': '|n: &Node| n.attribute("maxOccurs").is_some_and(|m| m != "1" && m != "0")', 'ensures': 'b == may_repeat(*n)'},
                            {'at': '|m| m != "1" && m != "0"', 'ensures': 'b == (m@ != "1"@ && m@ != "0"@)'},
                            {'at': '|ns| doc.find_namespace_by_abbreviation(ns)', 'ret': 'r: Option<&Rc<Namespace>>', 'ensures': 'true'},
                            {'at': '|| WriterError::NodeNotFound(ref_name.to_string())', 'ret': 'r: WriterError', 'ensures': 'true'},
                            {'at': '|n| n.rust_mod_name.clone()', 'ret': 'r: String', 'ensures': 'true'},
                            {'at': '|| WriterError::attribute_missing(&node, "name")', 'ret': 'r: WriterError', 'ensures': 'true'},
                            {'at': '|t| as_rust_type(t, doc)', 'ret': 'r: RustFieldType', 'ensures': 'true'}],
                  inserts=[{'pos': 'body_start', 'text': reveal('attribute', 'sequence', 'choice', 'all', 'minOccurs', 'maxOccurs', 'use', 'required', '0', '1', 'any', 'ref', 'name', 'type', 'targetNamespace', 'body', 'xml')},
                           {'at': 'let parent_is_optional', 'text': GROUPS_HINT},
                           {'at': 'if node.tag_name().name() == "any"', 'text': FLAGS_HINT}])
        close_container(out, im, f)

    def emit_simple(self, out, G, probe):
        rel = 'model/structures/simple.rs'
        f = SRC + rel
        im = G.top(rel, 'impl', r'.*TryFromNode.* for SimpleProps')
        open_container(out, im, f)
        for c in im.children:
            if c.kind == 'type':
                emit_verbatim(out, c, f)
        fn = child(im, 'fn', 'try_from_node')
        UNIQ = '''
            proof {
                assert(first_restriction(node, restriction));
                assert forall|r: Node| first_restriction(node, r) implies r == restriction by {
                    let i = choose|i: int| 0 <= i < all_kids(node).len() && #[trigger] all_kids(node)[i] == r && is_restr(r) && forall|j: int| 0 <= j < i ==> !is_restr(#[trigger] all_kids(node)[j]);
                    let k = choose|i: int| 0 <= i < all_kids(node).len() && #[trigger] all_kids(node)[i] == restriction && is_restr(restriction) && forall|j: int| 0 <= j < i ==> !is_restr(#[trigger] all_kids(node)[j]);
                    if i < k { assert(!is_restr(all_kids(node)[i])); }
                    if k < i { assert(!is_restr(all_kids(node)[k])); }
                }
            }
'''
        self._splice(out, fn, f, 'simple::SimpleProps::try_from_node', probe=probe,
                  ensures=[('facets-of-its-restriction', 'res is Ok ==> simple_ok(node, res->Ok_0)')],
                  origin={'facets-of-its-restriction': 'property'},
                  closures=[{'at': '|n| n.is_element() && n.tag_name().name() == "restriction"', 'ensures': 'b == is_restr(*n)'},
                            {'at': '|n| n.is_element() && n.tag_name().name() == "list"', 'ensures': 'b ==> !is_restr(*n)'},
                            {'at': '|n| n.is_element() && n.tag_name().name() == "union"', 'ensures': 'b ==> !is_restr(*n)'},
                            {'at': '|| WriterError::attribute_missing(&node, "name")', 'ret': 'r: WriterError', 'ensures': 'true'},
                            {'at': '|| WriterError::attribute_missing(&node, "base")', 'ret': 'r: WriterError', 'ensures': 'true'},
                            {'at': '|b| as_rust_type(b, doc)', 'ret': 'r: RustFieldType', 'ensures': 'true'}],
                  inserts=[{'pos': 'body_start', 'text': reveal('restriction', 'list', 'union', 'name', 'base')},
                           {'at': 'let rust_type = restriction', 'text': UNIQ}])
        close_container(out, im, f)

    def emit_facets(self, out, G, probe):
        rel = 'model/structures/restrictions.rs'
        f = SRC + rel
        fn = G.top(rel, 'fn', 'get_restriction_from_attribute_or_node')
        self._splice(out, fn, f, 'restrictions::get_restriction_from_attribute_or_node', probe=probe, specified=('trim',),
                  ensures=[('facet-from-attribute-or-first-child', 'facet_is(restriction, restriction_name@, opt_view(*old(target_field)), opt_view(*final(target_field)))')],
                  origin={'facet-from-attribute-or-first-child': 'property'},
                  closures=[{'at': '|n| n.tag_name().name() == restriction_name', 'ensures': 'b == (tag(*n) == restriction_name@)'}],
                  inserts=[{'pos': 'body_start', 'text': reveal('value')}])
        FACETS = [('min_inclusive', 'minInclusive'), ('max_inclusive', 'maxInclusive'), ('min_exclusive', 'minExclusive'), ('max_exclusive', 'maxExclusive'),
                  ('total_digits', 'totalDigits'), ('fraction_digits', 'fractionDigits'), ('length', 'length'), ('min_length', 'minLength'),
                  ('max_length', 'maxLength'), ('white_space', 'whiteSpace'), ('pattern', 'pattern')]
        fn = G.top(rel, 'fn', 'build_restrictions')
        import re as _re
        m = _re.search(r'restriction\s*\.children\(\)\s*\.filter\(.*?\.collect::<Vec<String>>\(\)', fn.body, _re.S)
        if not m:
            raise AnchorLost('restrictions::build_restrictions: the enumeration expression was not found')
        self._splice(out, fn, f, 'restrictions::build_restrictions', probe=probe,
                  ensures=[(f'facet-{x}', f'facet_is(restriction, "{x}"@, None, opt_view(res.{fld}))') for fld, x in FACETS],
                  origin={f'facet-{x}': 'property' for _, x in FACETS},
                  opaque=[G.opaque(out, m.group(0), 'Vec<String>')],
                  inserts=[{'pos': 'body_start', 'text': reveal(*[x for _, x in FACETS])}])

    def emit_element(self, out, G, probe):
        rel = 'model/structures/element.rs'
        f = SRC + rel
        im = G.top(rel, 'impl', r'.*TryFromNode.* for ElementProps')
        open_container(out, im, f)
        for c in im.children:
            if c.kind == 'type':
                emit_verbatim(out, c, f)
        fn = child(im, 'fn', 'try_from_node')
        self._splice(out, fn, f, 'element::ElementProps::try_from_node', probe=probe,
                  ensures=[('element-is-alias-or-carries-its-anonymous-type', 'res is Ok ==> element_ok(node, res->Ok_0)')],
                  origin={'element-is-alias-or-carries-its-anonymous-type': 'property'},
                  opaque=[{'at': 'node.children().filter(Node::is_element)', 'call': 'element_children(node)', 'type': 'Vec<Node>', 'note': ELEM_CHILDREN_NOTE}],
                  closures=[{'at': '|| WriterError::attribute_missing(&node, "name")', 'ret': 'r: WriterError', 'ensures': 'true'},
                            {'at': '|t| as_rust_type(t, doc)', 'ret': 'r: RustFieldType', 'ensures': 'true'}],
                  inserts=[{'pos': 'body_start', 'text': reveal('complexType', 'name', 'type')}],
                  loops={0: {'kind': 'for', 'iter': 'it', 'match': 'in node.children()',
                             'invariants': [('no-complex-type-child-so-far', 'it.seq() == elem_kids(node) && attr(node, "name"@) == Some(xml_name@) && attr(node, "type"@) is None '
                                                                             '&& forall|j: int| 0 <= j < it.index@ ==> tag(#[trigger] elem_kids(node)[j]) != "complexType"@')],
                             'body_prefix': '            proof { assert(n == elem_kids(node)[it.index@ as int]); }'}})
        close_container(out, im, f)

    def emit_node(self, out, G, probe):
        rel = 'model/node.rs'
        f = SRC + rel
        im = G.top(rel, 'impl', r'.*TryFromNode.* for RustNode')
        open_container(out, im, f)
        for c in im.children:
            if c.kind == 'type':
                emit_verbatim(out, c, f)
        fn = child(im, 'fn', 'try_from_node')
        self._splice(out, fn, f, 'node::RustNode::try_from_node', probe=probe,
                  ensures=[('component-kind-follows-the-tag', 'res is Ok ==> node_ok(node, res->Ok_0)'),
                           ('in-the-current-target-namespace', 'res is Ok ==> res->Ok_0.in_namespace == current_tns(*final(doc))')],
                  origin={'component-kind-follows-the-tag': 'property', 'in-the-current-target-namespace': 'property'},
                  inserts=[{'pos': 'body_start', 'text': reveal('complexType', 'group', 'simpleType', 'element', 'targetNamespace')}])
        close_container(out, im, f)

    def emit_complex_type(self, out, G, rel, f, probe):
        im = G.top(rel, 'impl', r'.*TryFromNode.* for ComplexProps')
        open_container(out, im, f)
        for c in im.children:
            if c.kind == 'type':
                emit_verbatim(out, c, f)
        fn = child(im, 'fn', 'try_from_node')
        AFTER_CC = 'result = read_complex_content_node(element_name, n, doc)?;'
        AFTER_SEQ = 'result = read_sequence_node(element_name, n, doc)?;'
        self._splice(out, fn, f, 'complex::ComplexProps::try_from_node', probe=probe,
                  ensures=[('content-then-attributes', 'res is Ok ==> ct_ok(node, res->Ok_0.fields@)')],
                  origin={'content-then-attributes': 'property'},
                  opaque=[{'at': 'node.children().filter(Node::is_element)', 'call': 'element_children(node)', 'type': 'Vec<Node>', 'note': ELEM_CHILDREN_NOTE}],
                  inserts=[{'pos': 'body_start', 'text': reveal('complexContent', 'sequence', 'attribute')},
                           {'at': 'for n in', 'text': '        let ghost mut cj: int = -1;\n        let ghost mut cfs: Seq<Field> = Seq::empty();\n        let ghost mut cdoc: RustDocument = *doc;'},
                           {'at': AFTER_CC, 'text': '                proof { cdoc = *doc; }'},
                           {'at': AFTER_CC, 'where': 'after', 'text': '                proof { cj = it.index@ as int; cfs = result.fields@; }'},
                           {'at': AFTER_SEQ, 'where': 'after', 'text': '                proof { cj = it.index@ as int; cfs = result.fields@; }'},
                           {'at': 'Ok(result)', 'text': '        proof {\n            let at = attrs_between(node, cj + 1, elem_kids(node).len());\n'
                                                        '            assert(result.fields@.take(result.fields@.len() - at.len()) =~= cfs);\n'
                                                        '            if cj >= 0 { assert(content_ok(cdoc, elem_kids(node)[cj], result.fields@.take(result.fields@.len() - at.len()))); }\n        }'}],
                  loops={0: {'kind': 'for', 'iter': 'it', 'match': 'in node.children()',
                             'invariants': [('content-child-tracked', 'it.seq() == elem_kids(node) && cj == last_content(node, it.index@ as nat) && cj < it.index@ '
                                                                      '&& (cj < 0 ==> cfs.len() == 0) && (cj >= 0 ==> content_ok(cdoc, elem_kids(node)[cj], cfs))'),
                                            ('fields-so-far', 'appended(cfs, result.fields@, attrs_between(node, cj + 1, it.index@ as nat))')],
                             'body_prefix': BROADCAST + '\n            proof { assert(n == elem_kids(node)[it.index@ as int]); }'}})
        close_container(out, im, f)

    def props_of(self, ob):
        if ob.endswith('#safety') or ob.endswith('#decreases') or 'loop0-decreases' in ob:
            return ['C13']
        if ob.startswith('restrictions::'):
            return ['C07']
        if 'import_extension_fields' in ob or 'read_complex_content_node' in ob:
            return ['C08']
        return ['C02', 'C08']

    def trusted_base(self):
        return list(self._trusted)


class UnitXR(UnitX):
    """the facet-reading functions of structures/restrictions.rs (C07, generator half)"""
    name = 'XR'
    props = ('C07',)
    parts = ('facets',)

    def props_of(self, ob):
        if ob.endswith('#safety'):
            return ['C13']
        return ['C07']
