"""Witness search for C16 / C07(b) on the real helpers::send_soap_request_using_client: a scripted loopback HTTP server
(std::net::TcpListener in a thread) x status codes x bodies x credentials; counts the POSTs and inspects the request."""
from __future__ import annotations
import re
from ..replay import run_test_module

MODULE = r'''
#[cfg(test)]
mod verif_replay_s {
    use crate::model::helpers_content::restrictions::{CheckRestrictions, Restrictions};
    use crate::model::helpers_content::error::{SoapError, SoapResult};
    use std::io::{Read, Write};
    use std::rc::Rc;
    use std::sync::{Arc, Mutex};
    use yaserde_derive::{YaDeserialize, YaSerialize};

    #[derive(Debug, Default, PartialEq, YaSerialize, YaDeserialize)]
    #[yaserde(rename = "Ping")]
    struct Ping { #[yaserde(rename = "text")] text: String }
    impl CheckRestrictions for Ping {
        fn check_restrictions(&self, _r: Option<Rc<Restrictions>>) -> SoapResult<()> {
            self.text.check_restrictions(Some(Rc::new(Restrictions { max_length: Some(4), ..Default::default() })))
        }
    }
    #[derive(Debug, Default, Clone, PartialEq, YaSerialize, YaDeserialize)]
    #[yaserde(rename = "Pong")]
    struct Pong { #[yaserde(rename = "answer")] answer: String }

    // serves `script.len()` connections; each entry: None = close without answering, Some((status, body))
    fn serve(script: Vec<Option<(u16, String)>>) -> (String, Arc<Mutex<Vec<String>>>, std::thread::JoinHandle<()>, Arc<std::sync::atomic::AtomicBool>) {
        let l = std::net::TcpListener::bind("127.0.0.1:0").unwrap();
        let addr = format!("http://{}/svc", l.local_addr().unwrap());
        let seen = Arc::new(Mutex::new(Vec::new()));
        let seen2 = seen.clone();
        let stop = Arc::new(std::sync::atomic::AtomicBool::new(false));
        let stop2 = stop.clone();
        l.set_nonblocking(true).unwrap();
        let h = std::thread::spawn(move || {
            let deadline = std::time::Instant::now() + std::time::Duration::from_millis(1500);
            let mut k = 0;
            // keeps accepting for a short grace period after the client is done, so that a second POST would be seen
            let mut grace: Option<std::time::Instant> = None;
            while std::time::Instant::now() < deadline && k < script.len() + 2 {
                if stop2.load(std::sync::atomic::Ordering::SeqCst) { let g = *grace.get_or_insert(std::time::Instant::now()); if g.elapsed() > std::time::Duration::from_millis(60) { break; } }
                match l.accept() {
                    Ok((mut s, _)) => {
                        s.set_nonblocking(false).unwrap();
                        s.set_read_timeout(Some(std::time::Duration::from_millis(500))).unwrap();
                        let mut buf = Vec::new();
                        let mut tmp = [0u8; 4096];
                        loop {
                            match s.read(&mut tmp) { Ok(0) => break, Ok(n) => { buf.extend_from_slice(&tmp[..n]);
                                let t = String::from_utf8_lossy(&buf).to_string();
                                if let Some(p) = t.find("\r\n\r\n") {
                                    let cl = t.to_lowercase().split("content-length:").nth(1).and_then(|x| x.trim().split("\r\n").next().map(|v| v.trim().parse::<usize>().unwrap_or(0))).unwrap_or(0);
                                    if buf.len() >= p + 4 + cl { break; }
                                } }, Err(_) => break }
                        }
                        seen2.lock().unwrap().push(String::from_utf8_lossy(&buf).to_string());
                        if let Some(Some((st, body))) = script.get(k) {
                            // a status >= 1000 stands for: status - 1000, announced with a Content-Length 10 bytes longer than what is sent
                            // (the connection is closed after the headers and part of the body)
                            let (st, cl) = if *st >= 1000 { (*st - 1000, body.len() + 10) } else { (*st, body.len()) };
                            let _ = write!(s, "HTTP/1.1 {st} X\r\nContent-Type: text/xml\r\nContent-Length: {cl}\r\nConnection: close\r\n\r\n{}", body);
                        }
                        k += 1;
                    }
                    Err(_) => std::thread::sleep(std::time::Duration::from_millis(5)),
                }
            }
        });
        (addr, seen, h, stop)
    }

    #[test]
    fn exchanges() {
        let rt = tokio::runtime::Builder::new_current_thread().enable_all().build().unwrap();
        let good = yaserde::ser::to_string(&Pong { answer: "pong".into() }).unwrap();
        let want_body = yaserde::ser::to_string(&Ping { text: "ping".into() }).unwrap();
        let mut n = 0;
        for status in [200u16, 201, 204, 400, 401, 403, 404, 500, 503] {
            for (bname, body) in [("envelope", good.clone()), ("empty", String::new()), ("not-xml", "<<garbage".to_string()), ("truncated", good[..good.len() / 2].to_string())] {
                for creds in [None, Some(("user", "secret"))] {
                    n += 1;
                    let (addr, seen, h, stop) = serve(vec![Some((status, body.clone())), Some((200, good.clone()))]);
                    let client = reqwest::Client::new();
                    let r: SoapResult<Pong> = rt.block_on(super::helpers_content::send_for_verif(&client, &addr, creds, Ping { text: "ping".into() }));
                    stop.store(true, std::sync::atomic::Ordering::SeqCst);
                    h.join().unwrap();
                    let reqs = seen.lock().unwrap().clone();
                    let case = format!("status {status} body {bname} credentials {}", creds.is_some());
                    if reqs.len() != 1 { println!("S|posts|{case}|{} requests reached the server", reqs.len()); continue; }
                    let q = &reqs[0];
                    if !q.starts_with("POST /svc ") { println!("S|method|{case}|request line {:?}", q.lines().next()); }
                    if !q.ends_with(&want_body) { println!("S|body|{case}|body is not the serialized envelope"); }
                    let has_auth = q.to_lowercase().contains("authorization: basic dxnlcjpzzwnyzxq=");
                    if has_auth != creds.is_some() { println!("S|auth|{case}|basic credentials present: {has_auth}"); }
                    // a 204 reply carries no body (the client ignores whatever follows the headers): never a response envelope, so an error
                    let should_ok = (200..300).contains(&status) && status != 204 && bname == "envelope";
                    match (&r, should_ok) {
                        (Ok(p), true) => if p.answer != "pong" { println!("S|value|{case}|wrong value {p:?}"); },
                        (Err(_), false) => {}
                        (Ok(p), false) => println!("S|value-for-failed-exchange|{case}|returned Ok({p:?})"),
                        (Err(e), true) => println!("S|error-for-good-exchange|{case}|returned Err({e})"),
                    }
                }
            }
        }
        // transport failures: connection closed before any response
        for creds in [None, Some(("user", "secret"))] {
            n += 1;
            let (addr, seen, h, stop) = serve(vec![None, Some((200, good.clone()))]);
            let client = reqwest::Client::new();
            let r: SoapResult<Pong> = rt.block_on(super::helpers_content::send_for_verif(&client, &addr, creds, Ping { text: "ping".into() }));
            stop.store(true, std::sync::atomic::Ordering::SeqCst);
            h.join().unwrap();
            let reqs = seen.lock().unwrap().len();
            if reqs != 1 { println!("S|posts|connection closed before the response, credentials {}|{reqs} requests reached the server", creds.is_some()); }
            if r.is_ok() { println!("S|value-for-failed-exchange|connection closed before the response|returned Ok"); }
        }
        // a request whose serialization is longer in bytes than in characters: the posted body must still be the whole serialization
        {
            n += 1;
            let req = Ping { text: "p\u{e4}\u{20ac}\u{1f600}".into() };
            let want = yaserde::ser::to_string(&req).unwrap();
            let (addr, seen, h, stop) = serve(vec![Some((200, good.clone())), Some((200, good.clone()))]);
            let client = reqwest::Client::new();
            let r: SoapResult<Pong> = rt.block_on(super::helpers_content::send_for_verif(&client, &addr, None::<(&str, &str)>, req));
            stop.store(true, std::sync::atomic::Ordering::SeqCst);
            h.join().unwrap();
            let reqs = seen.lock().unwrap().clone();
            if reqs.len() != 1 { println!("S|posts|non-ASCII request|{} requests reached the server", reqs.len()); }
            else if !reqs[0].ends_with(&want) { println!("S|body|non-ASCII request|body is not the serialized envelope (got {} bytes after the headers, want {})", reqs[0].split("\r\n\r\n").nth(1).map(|b| b.len()).unwrap_or(0), want.len()); }
            if let Err(e) = &r { println!("S|error-for-good-exchange|non-ASCII request|returned Err({e})"); }
        }
        // transport failures: connection closed after the headers, before the announced end of the body (the part that did arrive
        // may even be a complete envelope)
        for (bname, body) in [("complete envelope, then closed early", good.clone()), ("half an envelope, then closed", good[..good.len() / 2].to_string()), ("headers only, then closed", String::new())] {
            n += 1;
            let (addr, seen, h, stop) = serve(vec![Some((1200, body.clone())), Some((200, good.clone()))]);
            let client = reqwest::Client::new();
            let r: SoapResult<Pong> = rt.block_on(super::helpers_content::send_for_verif(&client, &addr, None::<(&str, &str)>, Ping { text: "ping".into() }));
            stop.store(true, std::sync::atomic::Ordering::SeqCst);
            h.join().unwrap();
            let reqs = seen.lock().unwrap().len();
            if reqs != 1 { println!("S|posts|connection closed after the headers ({bname})|{reqs} requests reached the server"); }
            if let Ok(p) = &r { println!("S|value-for-failed-exchange|connection closed after the headers ({bname})|returned Ok({p:?})"); }
        }
        // restriction violated: nothing may reach the server
        n += 1;
        let (addr, seen, h, stop) = serve(vec![Some((200, good.clone()))]);
        let client = reqwest::Client::new();
        let r: SoapResult<Pong> = rt.block_on(super::helpers_content::send_for_verif(&client, &addr, None::<(&str, &str)>, Ping { text: "too long".into() }));
        stop.store(true, std::sync::atomic::Ordering::SeqCst);
        h.join().unwrap();
        if seen.lock().unwrap().len() != 0 { println!("S|sent-before-check|restriction violated|a request reached the server"); }
        match r { Err(SoapError::Restriction(_)) => {}, other => println!("S|restriction-error|restriction violated|returned {:?}", other.map(|_| ())) }
        println!("S|done|{n}|");
    }
}
'''

# `helpers` is a private module of helpers_content.rs: a forwarding function is appended to that file for the test
FORWARD = '''
#[cfg(test)]
pub(crate) async fn send_for_verif<YI, YO, U, P>(client: &reqwest::Client, url: &str, credentials: Option<(U, P)>, req: YI) -> error::SoapResult<YO>
where YI: yaserde::YaSerialize + restrictions::CheckRestrictions, YO: yaserde::YaDeserialize + Default + std::fmt::Debug + Clone + Send + 'static, U: std::fmt::Display, P: std::fmt::Display,
{ helpers::send_soap_request_using_client(client, url, credentials, req).await }
'''


def _search(repo):
    import os
    from ..replay import scratch_repo
    root = scratch_repo(repo)
    hc = os.path.join(root, 'zeep-lib/src/model/helpers_content.rs')
    orig = open(hc, encoding='utf-8').read()
    try:
        open(hc, 'w', encoding='utf-8').write(orig + FORWARD)
        rc, outp = run_test_module(MODULE, 'verif_replay_s::exchanges', repo)
    finally:
        open(hc, 'w', encoding='utf-8').write(orig)
    res = {'exchanges': 0, 'anomalies': []}
    for line in outp.splitlines():
        m = re.match(r'^(?:test \S+ \.\.\. )?S\|([\w-]+)\|(.*?)\|(.*)$', line)
        if not m:
            continue
        if m.group(1) == 'done':
            res['exchanges'] = int(m.group(2))
        else:
            res['anomalies'].append({'aspect': m.group(1), 'exchange': m.group(2), 'observed': m.group(3)[:300]})
    if res['exchanges'] == 0:
        res['error'] = outp[-2500:]
    return res


_MEMO = {}


def search(repo, *a, **kw):
    """one run of the harness per check process and tree (the result is shared by all obligations it decides)"""
    key = (repo, a, tuple(sorted(kw.items())))
    if key not in _MEMO:
        _MEMO[key] = _search(repo, *a, **kw)
    return _MEMO[key]
