"""Unit K — C14 (keyword half): field.rs::rename_keywords is total over the edition-2024 keyword set."""
from __future__ import annotations
import json
import os
from ..core import Unit, VERIF
from ..splice import Out, splice_fn
from .gen import Gen, SRC, sections, spec_section
from .r import HEAD, TAIL, prelude

KW = json.load(open(os.path.join(VERIF, 'contracts', 'keywords.json')))


def string_literals(fn):
    out = []
    for k in range(fn.open, fn.last):
        t = fn.toks[k]
        if t.kind == 'string' and t.text.startswith('"'):
            out.append(t.text)
    return out


class UnitK(Unit):
    name = 'K'
    props = ('C14',)

    def build(self, repo, probe=False):
        out = Out()
        G = Gen(repo)
        out.spec(HEAD)
        self._trusted = prelude(out, ['ax-str-ext'])
        self._trusted += sections(out, 'dep_misc.rs', ['inflector'])
        out.spec('pub mod zeep {\n    use vstd::prelude::*;\n    use crate::inflector::cases::{pascalcase::to_pascal_case, snakecase::{to_snake_case, snake}};\n'
                 '    broadcast use crate::ax::str_ext;\n')
        out.spec(spec_section('K_spec.rs', 'keywords-spec'))
        rel = 'model/field.rs'
        fn = G.top(rel, 'fn', 'rename_keywords')
        lits = sorted(set(string_literals(fn)) | {'"%s"' % w for w in KW['strict'] + KW['reserved'] + KW['weak']} | {'"r#"'})
        reveal = 'proof { ' + ' '.join(f'reveal_strlit({l});' for l in lits) + ' }'
        first = fn.src[fn.toks[fn.open].end:].lstrip()[:40]
        splice_fn(out, fn, SRC + rel, 'field::rename_keywords',
                  ensures=[('non-keyword-unchanged', '!must_escape(field_name@) && !weak_kw(field_name@) ==> res@ == field_name@'),
                           ('weak-keyword-stays-legal', 'weak_kw(field_name@) ==> res@ == field_name@ || res@ == "r#"@ + field_name@'),
                           ('keyword-is-respelled', 'must_escape(field_name@) ==> res@ != field_name@ && !must_escape(res@)'),
                           ('result-never-a-keyword', '!must_escape(res@)'),
                           ('raw-form-only-if-legal', 'must_escape(field_name@) && res@ == "r#"@ + field_name@ ==> !not_raw_able(field_name@)')],
                  origin={k: 'property' for k in ('result-never-a-keyword', 'non-keyword-unchanged', 'weak-keyword-stays-legal', 'keyword-is-respelled', 'raw-form-only-if-legal')},
                  inserts=[{'at': '{', 'occurrence': 0, 'where': 'after', 'text': '        ' + reveal}], probe=probe)
        fn2 = G.top(rel, 'fn', 'as_field_name')
        splice_fn(out, fn2, SRC + rel, 'field::as_field_name',
                  ensures=[('field-name-never-a-keyword', '!must_escape(res@)')], origin={'field-name-never-a-keyword': 'property'}, probe=probe)
        out.spec('}\n' + TAIL)
        return out

    def props_of(self, ob):
        return ['C14', 'C13'] if ob.endswith('#safety') else ['C14']

    def trusted_base(self):
        return list(self._trusted)
