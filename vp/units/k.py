"""Unit K — C14 (keyword half): field.rs::rename_keywords is total over the edition-2024 keyword set."""
from __future__ import annotations
import json
import re
import os
from ..core import Unit, VERIF
from ..splice import Out, splice_fn, AnchorLost
from .gen import Gen, SRC, sections, spec_section
from .r import HEAD, TAIL, prelude

KW = json.load(open(os.path.join(VERIF, 'contracts', 'keywords.json')))


def string_literals(fn):
    out = []
    for k in range(fn.open, fn.last):
        t = fn.toks[k]
        if t.kind == 'string' and t.text.startswith('"'):
            out.append(t.text)
    return out


class UnitK(Unit):
    name = 'K'
    props = ('C14',)

    def build(self, repo, probe=False):
        out = Out()
        G = Gen(repo)
        self.lost = []
        out.spec(HEAD)
        self._trusted = prelude(out, ['ax-str-ext', 'stdspec-option-combinators', 'stdspec-string-eq-str', 'stdspec-char-class', 'stdspec-present-chars'])
        self._trusted += sections(out, 'dep_misc.rs', ['inflector'])
        out.spec('pub mod zeep {\n    use vstd::prelude::*;\n    use crate::inflector::cases::{pascalcase::to_pascal_case, snakecase::{to_snake_case, snake}};\n'
                 '    broadcast use crate::ax::str_ext;\n    use crate::stdspec::{ascii_alnum, ascii_digit, chars_filter_collect, chars_filter_take_collect, first_char, fmt_prefix};\n')
        out.spec(spec_section('K_spec.rs', 'keywords-spec'))
        out.spec(spec_section('K_spec.rs', 'ident-spec'))
        rel = 'model/field.rs'
        fn = G.top(rel, 'fn', 'rename_keywords')
        lits = sorted(set(string_literals(fn)) | {'"%s"' % w for w in KW['strict'] + KW['reserved'] + KW['weak']} | {'"r#"'})
        reveal = 'proof { ' + ' '.join(f'reveal_strlit({l});' for l in lits) + ' }'
        first = fn.src[fn.toks[fn.open].end:].lstrip()[:40]
        splice_fn(out, fn, SRC + rel, 'field::rename_keywords',
                  ensures=[('non-keyword-unchanged', '!must_escape(field_name@) && !weak_kw(field_name@) ==> res@ == field_name@'),
                           ('weak-keyword-stays-legal', 'weak_kw(field_name@) ==> res@ == field_name@ || res@ == "r#"@ + field_name@'),
                           ('keyword-is-respelled', 'must_escape(field_name@) ==> res@ != field_name@ && !must_escape(res@)'),
                           ('result-never-a-keyword', '!must_escape(res@)'),
                           ('raw-form-only-if-legal', 'must_escape(field_name@) && res@ == "r#"@ + field_name@ ==> !not_raw_able(field_name@)'),
                           ('identifier-stays-legal', 'identish(field_name@) ==> respelled_ok(field_name@, res@)')],
                  origin={k: 'property' for k in ('result-never-a-keyword', 'non-keyword-unchanged', 'weak-keyword-stays-legal', 'keyword-is-respelled', 'raw-form-only-if-legal', 'identifier-stays-legal')},
                  inserts=[{'at': '{', 'occurrence': 0, 'where': 'after', 'text': '        ' + reveal}], probe=probe)
        fn2 = G.top(rel, 'fn', 'as_field_name')
        splice_fn(out, fn2, SRC + rel, 'field::as_field_name',
                  ensures=[('field-name-never-a-keyword', '!must_escape(res@)')], origin={'field-name-never-a-keyword': 'property'}, probe=probe)
        self.emit_sanitisers(out, G, reveal, probe)
        out.spec('}\n' + TAIL)
        return out

    def emit_sanitisers(self, out, G, reveal, probe):
        """C14, injection half: the two functions that turn schema text into an identifier are under contract (round 11).
        str::Chars adapters and format! are PRESENTED through the stand-ins of std_prelude.rs `stdspec-present-chars` (each
        occurrence is recorded); the closures keep their tokens and get a postcondition that Verus proves from their body."""
        from .x import UnitX
        # a lost anchor in one sanitiser must not blind the keyword proof: the function is then declared with its contract and its clauses
        # are undecided (decided by the replay k_replay.search_sanitisers, else exit 2) - same rule as units X / XR
        sp = lambda *a, **kw: UnitX._splice(self, out, *a, **kw)
        NOTE = 'assumed meaning of the std expression, see std_prelude.rs stdspec-present-chars'
        from ..rustlex import match_close, _next_sig, parse_items
        from .d import nested_fn_text

        def call_args(fn, method):
            """source text between the parentheses of the first `.method(` call of fn (located on the token stream)"""
            toks = fn.toks
            for k in range(fn.open, fn.last):
                if toks[k].kind == 'ident' and toks[k].text == method and toks[_next_sig(toks, k + 1)].text == '(':
                    o = _next_sig(toks, k + 1)
                    return fn.src[toks[o].end:toks[match_close(toks, o)].start].strip()
            raise AnchorLost(f'{fn.name}: no call of .{method}(..)')

        def closure_param(text):
            m = re.match(r'\|\s*(\w+)\s*\|', text)
            if not m:
                raise AnchorLost(f'closure with a plain parameter expected, found {text[:40]!r}')
            return m.group(1)

        # ---- service.rs::service_type_name: the service struct's name.  Local and parameter names are read from the source,
        # closures are taken in their full extent, so renamed locals or a re-worded predicate keep the anchors.
        rel = 'model/soap/service.rs'
        FID1 = 'soap::service::service_type_name'
        try:
            fn = G.top(rel, 'fn', 'service_type_name')
            body = fn.src[fn.toks[fn.open].start:fn.toks[fn.last].end]
            m = re.search(r'let\s+(\w+)\s*:\s*String\s*=\s*(\w+)\s*\.chars\(\)\s*\.filter\(', body)
            if not m:
                raise AnchorLost('service_type_name: `let X: String = NAME.chars().filter(` not found')
            loc, par = m.group(1), m.group(2)
            keep = call_args(fn, 'filter')
            args = call_args(fn, 'map_or')
            digit = args.split(',', 1)[1].strip()
            c1, c2 = closure_param(keep), closure_param(digit)
            fmt = f'format!("_{{{loc}}}")'
            lits = sorted({'"_"', '"r#"'} | set(string_literals(fn)))
            rv = reveal[:-2] + ' ' + ' '.join(f'reveal_strlit({l});' for l in lits if l not in reveal and '{' not in l) + ' }'
            sp(fn, SRC + rel, FID1, probe=probe, sink='\0',
               ensures=[('service-name-is-a-legal-identifier', 'legal_ident(res@)')],
               origin={'service-name-is-a-legal-identifier': 'property'},
               opaque=[{'at': f'{par}.chars().filter(', 'call': f'chars_filter_collect({par}, ', 'type': 'String', 'flex': True, 'note': NOTE},
                       {'at': ').collect();', 'call': ');', 'type': 'String', 'flex': True, 'note': 'closing parenthesis of the presented `chars().filter(..).collect()`'},
                       {'at': f'{loc}.chars().next()', 'call': f'first_char(&{loc})', 'type': 'Option<char>', 'flex': True, 'note': NOTE},
                       {'at': fmt, 'call': f'fmt_prefix("_", &{loc})', 'type': 'String', 'note': NOTE}],
               closures=[{'at': keep, 'ensures': f'b ==> ident_char(*{c1})'},
                         {'at': digit, 'ensures': f'!b ==> !ascii_digit({c2})'}],
               inserts=[{'at': '{', 'occurrence': 0, 'where': 'after', 'text': '        ' + rv},
                        {'at': fmt, 'text': f'        proof {{ assert(ident_only("_"@ + {loc}@)); assert(("_"@ + {loc}@)[0] == \'_\'); }}'},
                        {'at': f'rename_keywords(&{loc})', 'text': f'        proof {{ assert({loc}@.len() > 0 && {loc}@ != "_"@ ==> identish({loc}@)); }}'}])
        except AnchorLost as e:
            if not any(l[0] == FID1 for l in self.lost):
                self.lost.append((FID1, [FID1 + '#service-name-is-a-legal-identifier'], str(e)))
        # ---- doc.rs::make_abbreviated_namespace::take_three_chars_max (nested fn): the stem of every prefix / module name
        rel = 'model/doc.rs'
        FID = 'doc::make_abbreviated_namespace::take_three_chars_max'
        try:
            outer = G.top(rel, 'fn', 'make_abbreviated_namespace')
            text = nested_fn_text(outer, 'take_three_chars_max')
            line0 = outer.line_of(outer.src.index(text, outer.start))
            its = [i for i in parse_items('\n' * (line0 - 1) + '    ' + text) if i.kind == 'fn']
            if len(its) != 1:
                raise AnchorLost('nested fn take_three_chars_max not parsed')
            it = its[0]
            body = it.src[it.toks[it.open].start:it.toks[it.last].end]
            m = re.search(r'(\w+)\s*\.chars\(\)\s*\.filter\(', body)
            m2 = re.search(r'\)\s*\.take\((\d+)\)\s*\.collect\(\)', body)
            if not m or not m2:
                raise AnchorLost('take_three_chars_max: `X.chars().filter(..).take(N).collect()` not found')
            par, n = m.group(1), m2.group(1)
            keep = call_args(it, 'filter')
            sp(it, SRC + rel, FID, probe=probe, sink='\0',
               ensures=[('stem-is-identifier-characters', 'ident_only(res@)'), ('stem-is-short', f'res@.len() <= {n}')],
               origin={'stem-is-identifier-characters': 'property', 'stem-is-short': 'helper'},
               opaque=[{'at': f'{par} .chars() .filter(', 'call': f'chars_filter_take_collect({par}, ', 'type': 'String', 'flex': True, 'note': NOTE},
                       {'at': f') .take({n}) .collect()', 'call': f', {n})', 'type': 'String', 'flex': True, 'note': 'tail of the presented `chars().filter(..).take(N).collect()`'}],
               closures=[{'at': keep, 'ensures': f'b ==> ident_char(*{closure_param(keep)})'}])
        except AnchorLost as e:
            if not any(l[0] == FID for l in self.lost):
                self.lost.append((FID, [FID + '#stem-is-identifier-characters'], str(e)))

    def props_of(self, ob):
        return ['C14', 'C13'] if ob.endswith('#safety') else ['C14']

    def trusted_base(self):
        return list(self._trusted)
