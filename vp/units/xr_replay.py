"""Witness search for unit XR (C07, generator half) on the real code: restriction elements that declare their facets in every supported way
(attribute, child element, both, twice, after an annotation, with no child elements at all, with enumerations mixed in) are read by the real
reader and the facets stored for the simple type are compared with what the restriction declares.  BOUNDED: a replay aid, never the deciding step."""
from __future__ import annotations
import itertools
import os
import re
from ..replay import run_test_module
from ..core import scratch

MODULE = r'''
#[cfg(test)]
mod verif_replay_xr {
    use super::*;
    use crate::model::structures::RustType;
    #[test]
    fn facets() {
        let cases = std::fs::read_to_string("@CASES@").unwrap();
        let mut n = 0usize;
        for line in cases.lines() {
            let Some((id, xml)) = line.split_once('\t') else { continue };
            n += 1;
            let res = std::panic::catch_unwind(|| XmlReader::read_xml_from_file("w.xsd", xml));
            match res {
                Err(_) => println!("XR|{id}|PANIC"),
                Ok(Err(e)) => println!("XR|{id}|ERR {e}"),
                Ok(Ok(doc)) => {
                    let mut shown = false;
                    for node in &doc.nodes {
                        if let RustType::Simple(p) = &node.rust_type {
                            if p.xml_name == "T" {
                                let f = |o: &Option<String>| o.as_ref().map(|s| s.trim().to_string()).unwrap_or_else(|| "-".to_string());
                                match &p.restrictions {
                                    None => println!("XR|{id}|NONE"),
                                    Some(r) => println!("XR|{id}|{} {} {} {} {} {} {} [{}]", f(&r.min_inclusive), f(&r.max_inclusive), f(&r.min_exclusive), f(&r.max_exclusive),
                                                        f(&r.length), f(&r.min_length), f(&r.max_length),
                                                        r.enumeration.as_ref().map(|v| v.join("|")).unwrap_or_default()),
                                }
                                shown = true;
                            }
                        }
                    }
                    if !shown { println!("XR|{id}|MISSING"); }
                }
            }
        }
        println!("XR|done|{n}");
    }
}
'''

FACETS = ['minInclusive', 'maxInclusive', 'minExclusive', 'maxExclusive', 'length', 'minLength', 'maxLength']
HEAD = '<xs:schema xmlns:xs="http://www.w3.org/2001/XMLSchema" xmlns:t="urn:w" targetNamespace="urn:w" elementFormDefault="qualified">'
DOC = '<xs:annotation><xs:documentation>what this is</xs:documentation></xs:annotation>'


def cases():
    out = []
    k = 0
    # per facet: how it is declared.  value the property expects: the attribute if present, else the value of the FIRST child of that name (none if that
    # child has no value attribute)
    FORMS = ['attr', 'child', 'both', 'twice', 'novalue-then-value']
    for fi, fname in enumerate(FACETS):
        for form in FORMS:
            for doc_first in (False, True):
                for enum in (False, True):
                    for other in (None, 'attr', 'child'):
                        attrs, kids, want = '', '', {}
                        if form in ('attr', 'both'):
                            attrs += f' {fname}="7"'
                            want[fname] = '7'
                        if form in ('child', 'both'):
                            kids += f'<xs:{fname} value="9"/>'
                            want.setdefault(fname, '9')
                        if form == 'twice':
                            kids += f'<xs:{fname} value="3"/><xs:{fname} value="4"/>'
                            want[fname] = '3'
                        if form == 'novalue-then-value':
                            kids += f'<xs:{fname}/><xs:{fname} value="4"/>'
                        o = FACETS[(fi + 3) % len(FACETS)]
                        if other == 'attr':
                            attrs += f' {o}="5"'
                            want[o] = '5'
                        elif other == 'child':
                            kids = f'<xs:{o} value="6"/>' + kids
                            want[o] = '6'
                        ev = ''
                        if enum:
                            kids += '<xs:enumeration value="red"/><xs:enumeration/><xs:enumeration value="green"/>'
                            ev = 'red|green'
                        body = (DOC if doc_first else '') + kids
                        xml = HEAD + f'<xs:simpleType name="T"><xs:restriction base="xs:string"{attrs}>{body}</xs:restriction></xs:simpleType></xs:schema>'
                        exp = ' '.join(want.get(f, '-') for f in FACETS) + f' [{ev}]'
                        out.append((f'f{k}', xml, exp))
                        k += 1
    # the annotation may also sit on the simpleType, before the restriction
    xml = HEAD + f'<xs:simpleType name="T">{DOC}<xs:restriction base="xs:string" maxLength="8"><xs:minLength value="2"/></xs:restriction></xs:simpleType></xs:schema>'
    out.append((f'f{k}', xml, '- - - - - 2 8 []'))
    return out


def _search(repo):
    cs = cases()
    path = os.path.join(scratch(), 'xr_cases.tsv')
    with open(path, 'w', encoding='utf-8') as f:
        for cid, xml, want in cs:
            f.write(f'{cid}\t{xml}\n')
    rc, outp = run_test_module(MODULE.replace('@CASES@', path), 'verif_replay_xr::facets', repo, host_file='zeep-lib/src/reader.rs', timeout=240)
    want = {cid: (xml, w) for cid, xml, w in cs}
    res = {'restrictions_read_by_real_code': 0, 'anomalies': [], 'n': 0}
    for line in outp.splitlines():
        m = re.match(r'^(?:test \S+ \.\.\. )?XR\|(\w+)\|(.*)$', line)
        if not m:
            continue
        if m.group(1) == 'done':
            res['restrictions_read_by_real_code'] = int(m.group(2))
            continue
        xml, w = want.get(m.group(1), ('', None))
        if w is not None and m.group(2) != w:
            res['n'] += 1
            if len(res['anomalies']) < 6:
                res['anomalies'].append({'schema': xml, 'facets_stored (minIncl maxIncl minExcl maxExcl length minLength maxLength [enumeration])': m.group(2), 'facets_declared': w})
    if res['restrictions_read_by_real_code'] == 0:
        res['error'] = outp[-1500:]
    return res


_MEMO = {}


def search(repo):
    if repo not in _MEMO:
        _MEMO[repo] = _search(repo)
    return _MEMO[repo]
