"""Run the L3 pipeline over the corpus for one concern (C02 / C05 / C07)."""
from __future__ import annotations
import glob
import hashlib
import os
import time
from concurrent.futures import ThreadPoolExecutor
from typing import Dict, List

from ..core import VERIF, REPO, run_unit, UnitRun, Failure, Inconclusive, scratch
from .. import l3gen
from ..l3 import model as M
from ..l3.specgen import Disagreement
from ..splice import AnchorLost
from .l3 import Program

CORPUS = os.path.join(VERIF, 'corpus')
PATHS: Dict[str, str] = {}        # program label -> absolute path (this run)


def rel_of(path: str, seed: int) -> str:
    if path.startswith(VERIF + os.sep):
        r = os.path.relpath(path, VERIF)
    else:
        r = 'generated:seed%d/%s' % (seed, '/'.join(path.split(os.sep)[-2:]))
    PATHS[r] = path
    return r


def _only_ok(d: str, pid) -> bool:
    # a program written for one known defect may be restricted to the concerns it is meant for (file ONLY in its directory):
    # emitted code that does not type-check would otherwise make every other concern inconclusive
    f = os.path.join(d, 'ONLY')
    return pid is None or not os.path.exists(f) or pid in open(f).read().split()


def corpus_programs(tier: str, pid=None) -> List[str]:
    out = []
    for d in sorted(glob.glob(os.path.join(CORPUS, 'p*'))):
        if not _only_ok(d, pid):
            continue
        starts = [f for f in sorted(glob.glob(os.path.join(d, '*')))
                  if f.endswith('.wsdl') or (f.endswith('.xsd') and not any(g.endswith('.wsdl') for g in glob.glob(os.path.join(d, '*')))
                                             and os.path.basename(f) in ('main.xsd',) or (f.endswith('.xsd') and len(glob.glob(os.path.join(d, '*'))) == 1))]
        out += starts[:1]
    return out


def generated_programs(tier: str, seed: int) -> List[str]:
    """random schema sets inside the subset (vp/l3/gen.py), deterministic in the seed; written to the scratch directory"""
    from ..l3 import gen
    n = int(os.environ.get('VERIF_GEN', '0') or 0) or (3 if tier == 'quick' else 45)
    root = os.path.join(scratch(), 'gen')
    if os.path.isdir(root):
        return sorted(glob.glob(os.path.join(root, 'g*', 'main.*')))
    return gen.generate(root, seed, n)


def run_concern(pid: str, tier: str, seed: int, runs=None) -> dict:
    t0 = time.time()
    progs = corpus_programs(tier, pid) + generated_programs(tier, seed)
    wsdl_only = pid == 'C05'
    models: Dict[str, M.Model] = {}
    skipped = []
    for p in progs:
        try:
            m = M.load(p)
            if wsdl_only and not m.operations:
                continue
            if pid == 'C08' and not any(c.base is not None for c in m.complex.values()):
                continue
            models[p] = m
        except M.Unsupported as e:
            skipped.append(f'{rel_of(p, seed)}: outside the subset ({e})')
    gen = l3gen.generate(list(models), REPO)
    res = {'obligations': [], 'failures': [], 'coverage': {}, 'trusted_base': [], 'back_end': ''}
    missing = [p for p in models if gen[p]['status'] == 'MISSING']
    if missing:
        # the generation harness itself did not run (compile error, crash): never to be mistaken for "nothing to check"
        class _M:
            unit = 'L3'
            status = 'inconclusive'
            reason = f'the generation harness produced no result for {len(missing)} of {len(models)} programs: ' + gen[missing[0]]['msg'][-300:]
        res['inconclusive'] = _M()
        return res
    units: List[Program] = []
    samples = []
    for p, m in models.items():
        g = gen[p]
        rel = rel_of(p, seed)
        if g.get('stateful') and pid in ('C09', 'C10'):
            # same input, different output depending on what the thread generated before: prefix / module assignment is not a function of the input
            ur_ = UnitRun('L3_' + os.path.basename(os.path.dirname(p)), 'failed')
            lab_ = f'index:{os.path.basename(p)}#output-independent-of-earlier-runs'
            res['obligations'].append(f'{ur_.unit}:{lab_}')
            res['failures'].append(Failure(ur_.unit, lab_, 'the emitted text for this input differs between a fresh thread and a thread that generated other programs before '
                                           '(state is kept across runs)', [{'file': 'schema:' + rel, 'line': 0, 'text': rel, 'what': 'program'}], '', props=[pid]))
            continue
        if g['status'] != 'OK':
            # the generator rejected / crashed on a schema of the supported subset: reported under C13's scope, skipped here
            skipped.append(f'{rel}: generator did not produce output ({g["status"]} {g["msg"][:120]})')
            continue
        name = 'L3_' + os.path.basename(os.path.dirname(p)) + ('s%d' % seed if not p.startswith(VERIF + os.sep) else '') + '_' + pid
        units.append(Program(name, p, g['out'], m, pid))

    def one(u: Program) -> UnitRun:
        try:
            return run_unit(u, REPO, probe=(pid == 'C07'))
        except Disagreement as e:
            ur = UnitRun(u.name, 'failed')
            f = Failure(u.name, f'index:{os.path.basename(u.schema)}#{e.what[:80]}', 'emitted code disagrees with the schema: ' + e.what,
                        [{'file': 'schema:' + rel_of(u.schema, seed), 'line': 0, 'text': e.what, 'what': ''}], e.detail, props=[e.prop if e.prop == pid else pid])
            ur.failures = [f]
            ur.obligations = [f.obligation]
            return ur
        except M.Unsupported as e:
            ur = UnitRun(u.name, 'skipped', reason=str(e))
            return ur

    with ThreadPoolExecutor(max_workers=6) as ex:
        urs = list(ex.map(one, units))
    inconcl = []
    nprog = 0
    solver_ms = 0
    for u, ur in zip(units, urs):
        rel = rel_of(u.schema, seed)
        if ur.status == 'skipped':
            skipped.append(f'{rel}: {ur.reason}')
            continue
        if ur.status == 'inconclusive':
            inconcl.append(f'{rel}: {ur.reason[:300]}')
            continue
        nprog += 1
        if ur.vr:
            solver_ms += ur.vr.smt_ms()
        extra_checks = []
        if pid == 'C08' and hasattr(u, 'em'):
            # "members keep the namespace of the schema that declared them": the prefix an inherited member is written with must be
            # DECLARED by the derived struct (or by the struct of the member's type) -- the declaration checks of C10, for derived types
            derived = {M.pascal(k[1]) for k, ct in u.model.complex.items() if ct.base is not None}
            try:
                extra_checks = [(lab, ok, det) for (lab, ok, det) in ns_decl_checks(u.em, u.model)
                                if lab.endswith('#prefix-declared') and lab.split('::')[-1].split('.')[0] in derived]
            except Exception:
                extra_checks = []
        for (lab, ok, detail) in ((u.wire_checks() + u.c08_checks() + u.order_checks() + extra_checks) if hasattr(u, 'em') else []):
            ur.obligations.append(lab)
            if not ok:
                msg_ = {'wire': 'element QName in the emitted yaserde attribute differs from the WSDL binding: ',
                        'ns:': 'namespace prefix in the emitted yaserde attribute differs from the declaring schema: ',
                        'orde': 'members of the emitted struct are not in declaration order (base first, then own): ',
                        'decl': 'the prefix an inherited member is written with is not declared by the derived struct: '}.get(lab[:4] if lab[:3] != 'ns:' else 'ns:', '')
                wf_ = Failure(u.name, lab, msg_ + detail, [], detail, props=[pid])
                ur.failures.append(wf_)
        for ob in ur.obligations:
            res['obligations'].append(f'{u.name}:{ob}')
        for f in ur.failures:
            if f.obligation.startswith(('emitted::', 'shape:', 'sig:', 'index:', 'wire:', 'ns:', 'order:', 'decl:')):
                f.unit = u.name
                f.props = [pid]
                import re as _re
                mt = _re.match(r'emitted::\w+::(\w+)::check_restrictions#rejects-invalid', f.obligation)
                mm_ = _re.match(r'emitted::(\w+)::', f.obligation)
                if mt and mt.group(1) in u.derived_own and (not getattr(u, 'derived_own_ns', None) or any(k[1] == mt.group(1) and u.sp.module_of(k[0]) == mm_.group(1) for k in u.derived_own_ns)):
                    f.sub = 'derived-simple-type-own-facets'
                # make the schema part of the exit description so that known findings are keyed by program
                f.exits = [{'file': 'schema:' + rel, 'line': 0, 'text': rel, 'what': 'program'}] + f.exits
                res['failures'].append(f)
        # (round 11) a failed obligation of an emitted function that contains a closure / std call Verus knows nothing about is UNDECIDED;
        # it used to be dropped here, so the program counted as verified although Verus had rejected it (seed C07-12: `derived.or_else(|| ..)`).
        # There is no execution-based witness for emitted code, so such a program makes the check inconclusive (exit 2) - never OK, never an alarm.
        und_ = [f for f in (getattr(ur, 'undecided_failures', None) or []) if f.obligation.startswith('emitted::')]
        if und_:
            inconcl.append(f"{rel}: proof undecided for {', '.join(sorted({f.obligation for f in und_})[:4])} (the emitted function uses a closure or std call "
                           f"without contract: {'; '.join((ur.out.unconstrained.get(und_[0].obligation.rsplit('#', 1)[0]) or ['?'])[:2]) if ur.out is not None else '?'})")
        res['trusted_base'] = sorted(set(res['trusted_base']) | set(ur.trusted))
        if len(samples) < 6 and ur.obligations:
            samples.append({'program': rel, 'emitted_sha256': hashlib.sha256(open(u.emitted_path, 'rb').read()).hexdigest(),
                            'obligations': ur.obligations[:4]})
    if inconcl:
        class _I:
            unit = 'L3'
            status = 'inconclusive'
            reason = ' || '.join(inconcl[:4])
        res['inconclusive'] = _I()
    res['coverage'] = {'programs': nprog, 'disagreements_checked': len(res['obligations']),
                       'l3_samples': samples, 'l3_skipped': skipped, 'l3_solver_ms': solver_ms,
                       'l3_wall_s': round(time.time() - t0, 1)}
    return res


# ------------------------------------------------------------------------------------------------
# C10, last clause and the "one module per namespace" clause, on the EMITTED text of the current generator.
# Namespace declarations live in #[yaserde(..)] attribute text, which no verifier front end sees; they are compared as text.

def ns_decl_checks(em, m) -> list:
    """[(label, ok, detail)] for one emitted file"""
    import re
    from ..l3.specgen import Emitted
    res = []

    def attr(txt, key):
        mm = re.search(r'\b' + key + r'\s*=\s*"([^"]*)"', txt)
        return mm.group(1) if mm else None

    def decls(txt):
        mm = re.search(r'namespaces\s*=\s*\{(.*?)\}', txt, re.S)
        if not mm:
            return None
        return re.findall(r'"([^"]*)"\s*=\s*"([^"]*)"', mm.group(1))

    structs = []      # (module or None, struct item)
    for name, mod in em.mods.items():
        for c in mod.children:
            if c.kind == 'struct':
                structs.append((name, c))
    for c in em.root:
        if c.kind == 'struct':
            structs.append((None, c))
    aliases = {}
    for name, mod in em.mods.items():
        for c in mod.children:
            if c.kind == 'type':
                mt = re.search(r'=\s*([\w:]+)\s*;', c.text)
                if mt:
                    aliases[f'{name}::{c.name}'] = mt.group(1)
    by_path = {(f'{mn}::{st.name}' if mn else st.name): st for mn, st in structs}
    p2u, u2p, mod_uri = {}, {}, {}
    for mn, st in structs:
        a = em.attr_text(st)
        d = decls(a)
        q = f'{mn}::{st.name}' if mn else st.name
        if d is None:
            continue
        # (1) the table read off all declarations of the file is a bijection prefix <-> URI
        ok, det = True, ''
        for p, u in d:
            if p2u.setdefault(p, u) != u:
                ok, det = False, f'prefix {p} is declared as {p2u[p]} and as {u}'
            if u2p.setdefault(u, p) != p:
                ok, det = False, f'URI {u} is declared with prefixes {u2p[u]} and {p}'
        res.append((f'decl:{q}#prefix-uri-table-bijective', ok, det or f'{len(d)} declarations'))
        # (2) the struct's own prefix is declared by it
        own = attr(a.split('namespaces')[0], 'prefix') or attr(a, 'prefix')
        dd = dict(d)
        if own is not None:
            res.append((f'decl:{q}#own-prefix-declared', own in dd, f'prefix {own}, declared {sorted(dd)}'))
            if mn is not None and own in dd:
                ok = mod_uri.setdefault(mn, dd[own]) == dd[own]
                res.append((f'decl:{q}#module-holds-one-namespace', ok, f'module {mn} holds {mod_uri[mn]} and {dd[own]}'))
        # (3) every prefix used by a member is declared: by this struct, or (struct-typed member) by the struct of its type
        for fname, fty, fattr in Emitted.fields(st):
            fp = attr(fattr, 'prefix')
            if fp is None:
                continue
            ok = fp in dd
            how = 'own list'
            if not ok:
                core = fty
                while True:
                    mm = re.fullmatch(r'(?:Option|Vec|multi_ref::MultiRef)\s*<\s*(.*)\s*>', core)
                    if not mm:
                        break
                    core = mm.group(1).strip()
                seen = set()
                while core in aliases and core not in seen:
                    seen.add(core)
                    core = aliases[core]
                tst = by_path.get(core)
                if tst is not None:
                    td = dict(decls(em.attr_text(tst)) or [])
                    ok = fp in td
                    how = f'declared by the member type {core}'
                else:
                    how = f'member type {core} is not a generated struct and {q} declares only {sorted(dd)}'
            res.append((f'decl:{q}.{fname}#prefix-declared', ok, f'prefix {fp}: {how}'))
    # (5) every component of a target namespace (whichever file declared it) is emitted in that namespace's module
    from ..l3 import model as M_
    for kind, comps in (('complexType', m.complex), ('simpleType', m.simple), ('element', m.elements)):
        for (ns, name) in comps:
            if ns not in u2p:
                continue
            mods = sorted(mn for mn, u in mod_uri.items() if u == ns)
            if len(mods) != 1:
                continue            # reported by #one-module
            mod = em.mods[mods[0]]
            here = M_.pascal(name) in em.structs(mod) or M_.pascal(name) in em.aliases(mod)
            # a global element typed by the component of the same name in the same namespace needs no alias of its own
            if not here and kind == 'element' and ((ns, name) in m.complex or (ns, name) in m.simple):
                here = True
            res.append((f'decl:namespace:{ns}#{kind}-{name}-in-its-module', here,
                        f'{kind} {name} of {ns} ' + ('is' if here else 'is NOT') + f' emitted in {mods[0]}'))
    # (4) the modules and prefixes agree with the schema set: one module per target namespace that has components
    for ns in m.namespaces:
        has = any(k[0] == ns for k in list(m.complex) + list(m.simple) + list(m.elements))
        if has and ns in u2p:
            mods = sorted(mn for mn, u in mod_uri.items() if u == ns)
            res.append((f'decl:namespace:{ns}#one-module', len(mods) <= 1, f'modules {mods}'))
    return res


def run_c10(pid: str, tier: str, seed: int, runs=None) -> dict:
    from ..l3.specgen import Emitted
    t0 = time.time()
    progs = corpus_programs(tier, pid) + generated_programs(tier, seed)
    models, skipped = {}, []
    for p in progs:
        try:
            models[p] = M.load(p)
        except M.Unsupported as e:
            skipped.append(f'{rel_of(p, seed)}: outside the subset ({e})')
    gen = l3gen.generate(list(models), REPO)
    if any(gen[p]['status'] == 'MISSING' for p in models):
        class _M:
            unit = 'L3'
            status = 'inconclusive'
            reason = 'the generation harness produced no result: ' + next(gen[p]['msg'] for p in models if gen[p]['status'] == 'MISSING')[-300:]
        return {'obligations': [], 'failures': [], 'coverage': {}, 'trusted_base': [], 'back_end': '', 'inconclusive': _M()}
    res = {'obligations': [], 'failures': [], 'coverage': {}, 'trusted_base': [], 'back_end': ' + attribute-text comparison (no solver) for the emitted namespace declarations'}
    nprog = 0
    for p, m in models.items():
        g = gen[p]
        rel = rel_of(p, seed)
        if g.get('stateful'):
            lab_ = f'index:{os.path.basename(p)}#output-independent-of-earlier-runs'
            un_ = 'L3_' + os.path.basename(os.path.dirname(p)) + '_C10'
            res['obligations'].append(f'{un_}:{lab_}')
            res['failures'].append(Failure(un_, lab_, 'the emitted text for this input differs between a fresh thread and a thread that generated other programs before '
                                           '(state is kept across runs)', [{'file': 'schema:' + rel, 'line': 0, 'text': rel, 'what': 'program'}], '', props=[pid]))
            continue
        if g['status'] != 'OK':
            skipped.append(f'{rel}: generator did not produce output ({g["status"]} {g["msg"][:120]})')
            continue
        uname = 'L3_' + os.path.basename(os.path.dirname(p)) + ('s%d' % seed if not p.startswith(VERIF + os.sep) else '') + '_C10'
        try:
            em = Emitted(g['out'])
            checks = ns_decl_checks(em, m)
        except Disagreement as e:
            checks = [(f'index:{os.path.basename(p)}#{e.what[:80]}', False, e.what)]
        except Exception as e:      # lexer / parser trouble is not a verdict
            skipped.append(f'{rel}: emitted file could not be indexed ({e!r})')
            continue
        nprog += 1
        for lab, ok, detail in checks:
            res['obligations'].append(f'{uname}:{lab}')
            if not ok:
                res['failures'].append(Failure(uname, lab, 'namespace declaration in the emitted yaserde attributes disagrees with the property: ' + detail,
                                               [{'file': 'schema:' + rel, 'line': 0, 'text': rel, 'what': 'program'}], detail, props=[pid]))
    res['coverage'] = {'programs': nprog, 'l3_skipped': skipped, 'l3_wall_s': round(time.time() - t0, 1),
                       'emitted_declaration_checks': len(res['obligations'])}
    return res
