"""Witness search for unit X (C02 flattening / C08 extension) on the real code: every content-model tree of a small family (groups nested
up to depth 3, up to 3 children per group, attributes after the content, plain and derived types) is read by the real reader and
the member list of the resulting struct is compared with the flattening the property describes.  BOUNDED: a replay aid, never the
deciding step."""
from __future__ import annotations
import itertools
import os
import re
from ..replay import run_test_module
from ..core import scratch

MODULE = r'''
#[cfg(test)]
mod verif_replay_x {
    use super::*;
    use crate::model::structures::RustType;
    #[test]
    fn flatten() {
        let cases = std::fs::read_to_string("@CASES@").unwrap();
        let mut n = 0usize;
        for line in cases.lines() {
            let Some((id, xml)) = line.split_once('\t') else { continue };
            n += 1;
            let res = std::panic::catch_unwind(|| XmlReader::read_xml_from_file("w.xsd", xml));
            match res {
                Err(_) => println!("X|{id}|PANIC"),
                Ok(Err(e)) => println!("X|{id}|ERR {e}"),
                Ok(Ok(doc)) => {
                    let mut shown = false;
                    for node in &doc.nodes {
                        if let RustType::Complex(p) = &node.rust_type {
                            if p.xml_name == "T" {
                                let flags = id.starts_with('o');
                                let names: Vec<String> = p.fields.iter().map(|f| format!("{}{}{}", if f.is_attribute { "@" } else { "" }, f.xml_name,
                                    if !flags { "" } else if f.is_vec { "!V" } else if f.is_optional { "!O" } else { "!T" })).collect();
                                println!("X|{id}|{}", names.join(","));
                                shown = true;
                            }
                        }
                    }
                    // an anonymous-typed global element carries the members of its complexType child
                    for node in &doc.nodes {
                        if let RustType::Element(e) = &node.rust_type {
                            if let crate::model::structures::element::ElementType::ComplexType(p) = &e.element_type {
                                if e.xml_name == "T" && !shown {
                                    let names: Vec<String> = p.fields.iter().map(|f| format!("{}{}", if f.is_attribute { "@" } else { "" }, f.xml_name)).collect();
                                    println!("X|{id}|{}", names.join(","));
                                    shown = true;
                                }
                            }
                        }
                    }
                    if !shown { println!("X|{id}|MISSING"); }
                }
            }
        }
        println!("X|done|{n}");
    }
}
'''

HEAD = ('<xs:schema xmlns:xs="http://www.w3.org/2001/XMLSchema" xmlns:t="urn:w" targetNamespace="urn:w" elementFormDefault="qualified">'
        '<xs:complexType name="B"><xs:sequence><xs:element name="b1" type="xs:string"/><xs:element name="b2" type="xs:int"/></xs:sequence>'
        '<xs:attribute name="ba" type="xs:string"/></xs:complexType>')
BASE = ['b1', 'b2', '@ba']


def _trees(depth, counter):
    """content particles: ('e',) element, ('s', kids) sequence, ('c', kids) choice, ('g',) attributeGroup reference"""
    leaves = [('e',), ('g',)]
    if depth == 0:
        return leaves
    out = list(leaves)
    sub = _trees(depth - 1, counter)
    for kind in 'sc':
        for n in range(0, 3):
            for kids in itertools.product(sub[:6], repeat=n):
                out.append((kind, kids))
    return out


def _render(t, names):
    if t[0] == 'e':
        nm = 'e%d' % len(names)
        names.append(nm)
        return f'<xs:element name="{nm}" type="xs:string"/>'
    if t[0] == 'g':
        return '<xs:attributeGroup ref="t:none"/>'
    tag = 'sequence' if t[0] == 's' else 'choice'
    return f'<xs:{tag}>' + ''.join(_render(k, names) for k in t[1]) + f'</xs:{tag}>'


def cases():
    out = []
    roots = []
    for n in range(0, 4):
        pool = [('e',), ('g',), ('s', ()), ('c', ()), ('c', (('e',),)), ('s', (('e',), ('e',))), ('c', (('s', (('e',), ('e',))), ('e',))),
                ('s', (('c', (('e',),)), ('s', (('e',),)), ('e',))), ('c', (('g',), ('s', ()))), ('c', (('c', (('e',), ('e',))), ('e',)))]
        for kids in itertools.product(pool, repeat=n):
            roots.append(('s', kids))
    roots = roots[:1120]
    k = 0
    DOC = '<xs:annotation><xs:documentation>about this</xs:documentation></xs:annotation>'
    for ri, root in enumerate(roots):
        for nattr in (0, 2):
            for derived in (False, True):
                # documentation where XSD allows it: first child of the complexType / of complexContent (only for some trees, to keep the family small)
                for doc in (('', DOC) if ri < 80 else ('',)):
                    names = []
                    body = _render(root, names)
                    attrs = ''.join(f'<xs:attribute name="a{i}" type="xs:string"/>' for i in range(nattr))
                    want = list(names) + [f'@a{i}' for i in range(nattr)]
                    if derived:
                        xml = HEAD + f'<xs:complexType name="T"><xs:complexContent>{doc}<xs:extension base="t:B">{body}{attrs}</xs:extension></xs:complexContent></xs:complexType></xs:schema>'
                        want = BASE + want
                    else:
                        xml = HEAD + f'<xs:complexType name="T">{doc}{body}{attrs}</xs:complexType></xs:schema>'
                    out.append((f'c{k}', xml, ','.join(want)))
                    k += 1
    # attributes declared on the complexType itself, after its complexContent (not in the XSD grammar, but read deliberately: ct_ok)
    for ri, root in enumerate(roots[:60]):
        names = []
        body = _render(root, names)
        xml = HEAD + (f'<xs:complexType name="T"><xs:complexContent><xs:extension base="t:B">{body}<xs:attribute name="inner" type="xs:string"/></xs:extension></xs:complexContent>'
                      '<xs:attribute name="after1" type="xs:string"/><xs:attribute name="after2" type="xs:int"/></xs:complexType></xs:schema>')
        out.append((f'k{ri}', xml, ','.join(BASE + list(names) + ['@inner', '@after1', '@after2'])))
    # an extension whose own content is a choice (XSD: extension content is group | all | choice | sequence), with and without attributes
    for nattr in (0, 2):
        for inner in ('<xs:element name="c0" type="xs:string"/><xs:element name="c1" type="xs:int"/>',
                      '<xs:element name="c0" type="xs:string"/><xs:sequence><xs:element name="c1" type="xs:int"/><xs:element name="c2" type="xs:int"/></xs:sequence>'):
            attrs = ''.join(f'<xs:attribute name="a{i}" type="xs:string"/>' for i in range(nattr))
            names = re.findall(r'name="(c\d)"', inner)
            xml = HEAD + f'<xs:complexType name="T"><xs:complexContent><xs:extension base="t:B"><xs:choice>{inner}</xs:choice>{attrs}</xs:extension></xs:complexContent></xs:complexType></xs:schema>'
            out.append((f'x{nattr}{len(names)}', xml, ','.join(BASE + names + [f'@a{i}' for i in range(nattr)])))
    # anonymous-typed global elements: <xs:element name="T"><xs:complexType> tree + attributes </xs:complexType></xs:element>
    for ri, root in enumerate(roots[:150]):
        for nattr in (0, 2):
            names = []
            body = _render(root, names)
            attrs = ''.join(f'<xs:attribute name="a{i}" type="xs:string"/>' for i in range(nattr))
            for di, doc in enumerate(('', DOC)):
                # XSD puts the documentation of an element before its inline type
                xml = HEAD + f'<xs:element name="T">{doc}<xs:complexType>{body}{attrs}</xs:complexType></xs:element></xs:schema>'
                out.append((f'e{ri}x{nattr}d{di}', xml, ','.join(list(names) + [f'@a{i}' for i in range(nattr)])))
    # occurrence family: a member under 1..3 nested groups, every combination of group kind and occurrence attributes on each level and on the member;
    # expected wrapper from the property: Vec if the member or an enclosing group may repeat, else Option if the member or an enclosing group is optional
    # or the member is in a choice, else bare
    OCC = [('', False, False), (' minOccurs="0"', True, False), (' maxOccurs="unbounded"', False, True), (' maxOccurs="3"', False, True), (' minOccurs="0" maxOccurs="1"', True, False)]
    LEAF = [('', False, False), (' minOccurs="0"', True, False), (' maxOccurs="unbounded"', False, True), (' minOccurs="1" maxOccurs="1"', False, False)]
    ko = 0
    for depth in (1, 2, 3):
        for kinds in itertools.product(('sequence', 'choice'), repeat=depth):
            for occs in itertools.product(range(len(OCC)), repeat=depth):
                if depth == 3 and (sum(occs) + ko) % 3:        # thin out the deepest level
                    ko += 1
                    continue
                for (la, lopt, lvec) in LEAF:
                    opt = lopt or any(OCC[o][1] for o in occs) or 'choice' in kinds
                    vec = lvec or any(OCC[o][2] for o in occs)
                    flag = '!V' if vec else ('!O' if opt else '!T')
                    inner = f'<xs:element name="m" type="xs:string"{la}/><xs:element name="z" type="xs:int"/>'
                    zopt = any(OCC[o][1] for o in occs) or 'choice' in kinds
                    zvec = any(OCC[o][2] for o in occs)
                    zflag = '!V' if zvec else ('!O' if zopt else '!T')
                    for kd, o in reversed(list(zip(kinds, occs))):
                        inner = f'<xs:{kd}{OCC[o][0]}>{inner}</xs:{kd}>'
                    # the type's own content is a plain sequence holding a first member and the nested groups
                    xml = (HEAD + f'<xs:complexType name="T"><xs:sequence><xs:element name="first" type="xs:string"/>{inner}</xs:sequence><xs:attribute name="req" type="xs:string" use="required"/><xs:attribute name="opt" type="xs:string"/>'
                           '<xs:attribute name="dflt" type="xs:string" default="x"/><xs:attribute name="fx" type="xs:int" fixed="1"/><xs:attribute name="eo" type="xs:string" use="optional"/></xs:complexType></xs:schema>')
                    out.append((f'o{ko}', xml, f'first!T,m{flag},z{zflag},@req!T,@opt!O,@dflt!O,@fx!O,@eo!O'))
                    ko += 1
    # derived types without a sequence of their own
    for nattr in (0, 1, 3):
        attrs = ''.join(f'<xs:attribute name="a{i}" type="xs:string"/>' for i in range(nattr))
        xml = HEAD + f'<xs:complexType name="T"><xs:complexContent><xs:extension base="t:B">{attrs}</xs:extension></xs:complexContent></xs:complexType></xs:schema>'
        out.append((f'c{k}', xml, ','.join(BASE + [f'@a{i}' for i in range(nattr)])))
        k += 1
    return out


def _search(repo):
    cs = cases()
    path = os.path.join(scratch(), 'x_cases.tsv')
    with open(path, 'w', encoding='utf-8') as f:
        for cid, xml, want in cs:
            f.write(f'{cid}\t{xml}\n')
    rc, outp = run_test_module(MODULE.replace('@CASES@', path), 'verif_replay_x::flatten', repo, host_file='zeep-lib/src/reader.rs', timeout=240)
    want = {cid: (xml, w) for cid, xml, w in cs}
    res = {'trees_read_by_real_code': 0, 'anomalies': [], 'n': 0}
    seen = set(re.findall(r"X\|(\w\w+)\|", outp))
    if rc == 124 or 'X|done|' not in outp:
        # the harness did not finish: the first tree without a result line is the one it hangs (or aborts) on
        for cid, xml, w in cs:
            if cid not in seen:
                res['n'] += 1
                res['anomalies'].append({'schema': xml, 'members_of_T_observed': 'HANG' if rc == 124 else 'ABORT', 'members_declared': w, 'derived': 'complexContent' in xml})
                res['trees_read_by_real_code'] = len(seen)
                break
    for line in outp.splitlines():
        m = re.match(r'^(?:test \S+ \.\.\. )?X\|(\w+)\|(.*)$', line)
        if not m:
            continue
        if m.group(1) == 'done':
            res['trees_read_by_real_code'] = int(m.group(2))
            continue
        xml, w = want.get(m.group(1), ('', None))
        if w is not None and m.group(2) != w:
            res['n'] += 1
            if len(res['anomalies']) < 6:
                res['anomalies'].append({'schema': xml, 'members_of_T_observed': m.group(2), 'members_declared': w,
                                         'derived': 'complexContent' in xml})
    if res['trees_read_by_real_code'] == 0:
        res['error'] = outp[-1500:]
    return res


_MEMO = {}


def search(repo):
    if repo not in _MEMO:
        _MEMO[repo] = _search(repo)
    return _MEMO[repo]
