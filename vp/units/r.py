"""Unit R — C06: the restriction check of helpers_content.rs::restrictions."""
from __future__ import annotations
import os
import re
from ..core import Unit, VERIF, read_sections, trusted_chunk
from ..splice import Out
from .hc import HelpersContent, C

HEAD = 'use vstd::prelude::*;\nverus! {\n'
TAIL = '} // verus!\nfn main() {}\n'


def prelude(out: Out, std_sections, dep_sections=()):
    names = []
    t, n = read_sections(os.path.join(C, 'std_prelude.rs'), list(std_sections))
    trusted_chunk(out, t); names += n
    for fname, secs in dep_sections:
        t, n = read_sections(os.path.join(C, fname), list(secs))
        trusted_chunk(out, t); names += n
    return names


ON_DEMAND = [('stdspec-saturating', r'\.saturating_(add|sub)\s*\(')]


class UnitR(Unit):
    name = 'R'
    props = ('C06',)

    def build(self, repo, probe=False):
        out = Out()
        out.spec(HEAD)
        hc = HelpersContent(repo)
        # contracts of std methods the current tree does not call are added only when the extracted text
        # starts calling them (they are then listed in the trusted base of that run)
        on_demand = [sec for sec, pat in ON_DEMAND if re.search(pat, hc.src)]
        self._trusted = prelude(out, ['ax-rc', 'ax-parse', 'ax-string-eq', 'ax-tryfrom', 'ax-from-unsigned', 'stdspec-parse', 'stdspec-chars', 'stdspec-bytelen', 'ax-bytelen', 'stdspec-contains'] + on_demand,
                                [('dep_reqwest.rs', ['reqwest-error'])])
        hc.emit_error(out, probe, record=False)
        self.types = hc.emit_restrictions(out, probe)
        out.spec(TAIL)
        return out

    def props_of(self, ob):
        # C07 ("fails iff some value violates a declared facet, at any depth, inside optional or repeated members") is the
        # composition of the emitted delegation (L3) with these leaf checks, so the leaf clauses carry C07 as well.  Not
        # `#full-range`: numerals beyond i128 in a String carrier with a numeric facet cannot come from a supported schema.
        deleg = ob.startswith('restrictions::Vec<C>::') or ob.startswith('restrictions::Option<C>::')
        if ob.endswith('#safety'):
            return ['C06', 'C13'] + (['C07'] if deleg else [])
        return ['C06'] + ([] if ob.endswith('#full-range') else ['C07'])

    def trusted_base(self):
        return list(self._trusted)
