"""Unit R — C06: the restriction check of helpers_content.rs::restrictions."""
from __future__ import annotations
import os
from ..core import Unit, VERIF, read_sections, trusted_chunk
from ..splice import Out
from .hc import HelpersContent, C

HEAD = 'use vstd::prelude::*;\nverus! {\n'
TAIL = '} // verus!\nfn main() {}\n'


def prelude(out: Out, std_sections, dep_sections=()):
    names = []
    t, n = read_sections(os.path.join(C, 'std_prelude.rs'), list(std_sections))
    trusted_chunk(out, t); names += n
    for fname, secs in dep_sections:
        t, n = read_sections(os.path.join(C, fname), list(secs))
        trusted_chunk(out, t); names += n
    return names


class UnitR(Unit):
    name = 'R'
    props = ('C06',)

    def build(self, repo, probe=False):
        out = Out()
        out.spec(HEAD)
        self._trusted = prelude(out, ['ax-rc', 'ax-parse', 'ax-string-eq', 'ax-tryfrom', 'ax-from-unsigned', 'stdspec-parse', 'stdspec-chars', 'stdspec-bytelen', 'ax-bytelen', 'stdspec-contains'],
                                [('dep_reqwest.rs', ['reqwest-error'])])
        hc = HelpersContent(repo)
        hc.emit_error(out, probe, record=False)
        self.types = hc.emit_restrictions(out, probe)
        out.spec(TAIL)
        return out

    def props_of(self, ob):
        # the Option / Vec delegation impls also carry C07 ("inside optional or repeated members, at any depth")
        deleg = ob.startswith('restrictions::Vec<C>::') or ob.startswith('restrictions::Option<C>::')
        if ob.endswith('#safety'):
            return ['C06', 'C13'] + (['C07'] if deleg else [])
        return ['C06'] + (['C07'] if deleg else [])

    def trusted_base(self):
        return list(self._trusted)
