"""Unit S — C16 and C07(b): helpers::send_soap_request(_using_client) against contract-only reqwest/yaserde."""
from __future__ import annotations
from ..core import Unit
from ..splice import Out
from .hc import HelpersContent
from .r import prelude, HEAD, TAIL


class UnitS(Unit):
    name = 'S'
    props = ('C16', 'C07')

    def build(self, repo, probe=False):
        out = Out()
        out.spec(HEAD)
        self._trusted = prelude(out, ['ax-rc', 'ax-parse', 'ax-string-eq', 'ax-tryfrom', 'ax-from-unsigned',
                                      'stdspec-parse', 'stdspec-drop', 'stdspec-chars', 'stdspec-bytelen', 'ax-bytelen', 'stdspec-contains'],
                                [('dep_reqwest.rs', ['reqwest-error', 'reqwest-client']),
                                 ('dep_yaserde.rs', ['io-traits', 'io-write-trait-opaque', 'io-traits-end', 'xml', 'yaserde-begin', 'yaserde-traits', 'yaserde-end'])])
        hc = HelpersContent(repo)
        hc.emit_error(out, False, record=False, imported='R')
        hc.emit_restrictions(out, False, record=False, imported='R')
        hc.emit_helpers(out, probe)
        out.spec(TAIL)
        return out

    def props_of(self, ob):
        if not ob.startswith('helpers::'):
            return []
        c = ob.split('#')[1]
        if c == 'invalid-request-is-error':
            return ['C07']
        if c == 'safety':
            # callee preconditions: net_allowed (C07: nothing on the wire before the check passed),
            # request-is-post/url/body/auth (C16), plus ordinary panic freedom (C13)
            return ['C07', 'C16', 'C13']
        return ['C16']

    def props_of_failure(self, f):
        if f.obligation.startswith('helpers::') and f.obligation.endswith('#safety'):
            if f.sub.startswith('request-'):
                return ['C16']
            if f.sub == 'net-allowed':
                return ['C07']
            return ['C13']
        return self.props_of(f.obligation)

    def trusted_base(self):
        return list(self._trusted)
