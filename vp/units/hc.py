"""Emission of zeep-lib/src/model/helpers_content.rs (the runtime appended verbatim to every generated
file) with contracts.  Shared by units R (C06), M (C19), S (C07b/C16) and the L3 pipeline."""
from __future__ import annotations
import os
import re
from typing import Dict, List, Optional

from ..rustlex import parse_file, find, walk, Item, match_close, _next_sig
from ..splice import Out, AnchorLost, splice_fn, emit_verbatim, _line
from ..core import VERIF, read_sections, trusted_chunk, Inconclusive

HC = 'zeep-lib/src/model/helpers_content.rs'
C = os.path.join(VERIF, 'contracts')

INT_CARRIERS_MACRO = 'impl_check_restrictions_for_int'


def one(items, kind, name_re, within=None, what=''):
    got = find(items, kind, name_re, within)
    if len(got) != 1:
        raise AnchorLost(f'{what or (kind + " " + name_re)}: expected exactly one match, found {len(got)}')
    return got[0]


def child(it: Item, kind: str, name_re: str) -> Item:
    got = [c for c in it.children if c.kind == kind and re.fullmatch(name_re, c.name)]
    if len(got) != 1:
        raise AnchorLost(f'{it.path()} :: {kind} {name_re}: expected exactly one match, found {len(got)}')
    return got[0]


def open_container(out: Out, it: Item, file: str, extra: str = ''):
    """emit the header of a mod / impl / trait verbatim (attributes dropped) and its opening brace"""
    hf = it.head_first
    text = it.src[it.toks[hf].start:it.toks[it.open].end]
    out.code(text + '\n', file, _line(it, hf))
    if extra:
        out.spec(extra)


def close_container(out: Out, it: Item, file: str):
    out.code('}\n', file, _line(it, it.last))


def emit_uses(out: Out, it: Item, file: str, skip: Optional[str] = None):
    for c in it.children:
        if c.kind == 'use':
            if skip and re.search(skip, c.text):
                out.dropped.append(f'use line `{" ".join(c.text.split())}` ({file}:{c.line_span[0]})')
                continue
            emit_verbatim(out, c, file)


def sec(path: str, name: str) -> str:
    return read_sections(os.path.join(C, path), [name])[0]


class HelpersContent:
    def __init__(self, repo: str):
        self.repo = repo
        self.path = os.path.join(repo, HC)
        self.items = parse_file(self.path)
        self.src = open(self.path, encoding='utf-8').read()
        self.file = HC

    # ------------------------------------------------------------------------------------ error
    def emit_error(self, out: Out, probe: bool, record: bool = True, imported=None):
        m = one(self.items, 'mod', 'error')
        open_container(out, m, self.file, '    use vstd::prelude::*;\n    use crate::reqwest;\n    broadcast use crate::ax::parse_int_error_display;')
        emit_uses(out, m, self.file)
        emit_verbatim(out, child(m, 'enum', 'SoapError'), self.file)
        emit_verbatim(out, child(m, 'type', 'SoapResult'), self.file)
        # vstd's contract of From::from is `obeys_from_spec() ==> ret == from_spec(v)`; these impls make no such promise
        out.spec('''    impl vstd::std_specs::convert::FromSpecImpl<reqwest::Error> for SoapError {
        open spec fn obeys_from_spec() -> bool { false }
        open spec fn from_spec(v: reqwest::Error) -> Self { arbitrary() }
    }
    impl vstd::std_specs::convert::FromSpecImpl<ParseIntError> for SoapError {
        open spec fn obeys_from_spec() -> bool { false }
        open spec fn from_spec(v: ParseIntError) -> Self { arbitrary() }
    }''')
        for name, fid, ens in (('From < reqwest :: Error > for SoapError', 'error::From<reqwest::Error>::from', 'res is Http'),
                               ('From < ParseIntError > for SoapError', 'error::From<ParseIntError>::from', 'res is Restriction')):
            im = child(m, 'impl', re.escape(name))
            open_container(out, im, self.file)
            splice_fn(out, child(im, 'fn', 'from'), self.file, fid, ensures=[('variant', ens)],
                      origin={'variant': 'helper'}, probe=probe, record=record, imported=imported)
            close_container(out, im, self.file)
        for c in m.children:
            if c.kind == 'impl' and ('Display' in c.name or c.name.startswith('Error for')):
                out.dropped.append(f'{c.path()} (not called by any function under contract)')
        close_container(out, m, self.file)

    # ----------------------------------------------------------------------------- restrictions
    def emit_restrictions(self, out: Out, probe: bool, record: bool = True, imported=None):
        f = self.file
        m = one(self.items, 'mod', 'restrictions')
        open_container(out, m, f, '    use vstd::prelude::*;\n    use crate::stdspec::{is_numeral, int_of};\n'
                                  '    broadcast use {crate::ax::rc_clone_eq, crate::ax::parse_i32, crate::ax::parse_i64, crate::ax::parse_i128, crate::ax::string_peq, crate::ax::try_from_i32_obeys,\n        crate::ax::try_from_i32_i8, crate::ax::try_from_i32_u8, crate::ax::try_from_i32_i16, crate::ax::try_from_i32_u16,\n        crate::ax::try_from_i32_u32, crate::ax::try_from_i32_i64, crate::ax::try_from_i32_u64,\n        crate::ax::byte_len_at_least_chars, crate::ax::from_i128_obeys, crate::ax::from_i128_u8, crate::ax::from_i128_u16, crate::ax::from_i128_u32, crate::ax::from_i128_u64};')
        emit_uses(out, m, f)
        emit_verbatim(out, child(m, 'struct', 'Restrictions'), f)
        out.spec(sec('R_spec.rs', 'restrictions-spec'))
        # ---- the trait: spec members + the contract every impl inherits
        tr = child(m, 'trait', 'CheckRestrictions')
        open_container(out, tr, f)
        out.spec(sec('R_spec.rs', 'trait-spec-members'))
        tfn = child(tr, 'fn', 'check_restrictions')
        pname = self._param_name(tfn)
        splice_fn(out, tfn, f, 'restrictions::CheckRestrictions::check_restrictions',
                  ensures=[('accepts-valid', f'self.dom({pname}) && self.sat({pname}) ==> res is Ok'),
                           ('rejects-invalid', f'self.dom({pname}) && !self.sat({pname}) ==> res is Err')],
                  origin={'accepts-valid': 'property', 'rejects-invalid': 'property'},
                  drop_body=True, record=record)
        close_container(out, tr, f)
        inh = ['accepts-valid', 'rejects-invalid']

        handled = []

        def impl(name_re, fid, members_section, **kw):
            im = child(m, 'impl', name_re)
            handled.append(id(im))
            open_container(out, im, f)
            out.spec(sec('R_spec.rs', members_section))
            fn = child(im, 'fn', 'check_restrictions')
            splice_fn(out, fn, f, fid, inherits=inh, probe=probe, record=record, imported=imported, **kw)
            close_container(out, im, f)

        # the invariant speaks about the restriction set AS PASSED IN (ghost snapshot taken first, so that a later
        # shadowing of the parameter name cannot change its meaning)
        vim = child(m, 'impl', r'< C > CheckRestrictions for Vec < C > where C : CheckRestrictions')
        vp = self._param_name(child(vim, 'fn', 'check_restrictions'))
        impl(r'< C > CheckRestrictions for Vec < C > where C : CheckRestrictions', 'restrictions::Vec<C>::check_restrictions',
             'vec-spec-members',
             inserts=[{'pos': 'body_start', 'text': f'            let ghost r0__ = {vp};'}], loop_isolation=False,
             loops={0: {'kind': 'for', 'iter': 'it',
                        'invariants': [('loop-prefix-sat',
                                        'self.dom(r0__) ==> forall|i: int| 0 <= i < it.index@ ==> (#[trigger] self@[i]).sat(r0__)')]}})
        impl(r'< C > CheckRestrictions for Option < C > where C : CheckRestrictions', 'restrictions::Option<C>::check_restrictions',
             'option-spec-members')
        impl(r'CheckRestrictions for i32', 'restrictions::i32::check_restrictions', 'int-spec-members')
        # ---- shared numeric comparison helper (present since the `fix:` that widened the integer carriers)
        cb = [c for c in m.children if c.kind == 'fn' and c.name == 'check_bounds']
        if cb:
            splice_fn(out, cb[0], f, 'restrictions::check_bounds',
                      ensures=[('accepts-valid', 'num_ok(value as int, *restrictions) ==> res is Ok'),
                               ('rejects-invalid', '!num_ok(value as int, *restrictions) ==> res is Err')],
                      origin={'accepts-valid': 'property', 'rejects-invalid': 'property'}, probe=probe, record=record, imported=imported)
        # any other free function of the module has no contract here: emitted verbatim so the text still
        # compiles, and recorded so that a failed proof is reported as inconclusive, not as a violation
        for c in m.children:
            if c.kind == 'fn' and c.name != 'check_bounds':
                emit_verbatim(out, c, f)
                out.uncontracted.append(f'{f}: fn {c.name} (line {c.line_span[0]})')
        # ---- macro instances: textual substitution of $t in the macro body, one impl per listed type
        mac = child(m, 'macro_rules', INT_CARRIERS_MACRO)
        call = child(m, 'macro_call', INT_CARRIERS_MACRO)
        types = self._macro_types(call)
        body_item, t_var = self._macro_impl(mac)
        for ty in types:
            text = body_item.replace('$' + t_var, ty)
            # parse the expanded impl as an item of its own (line numbers: those of the macro body)
            from ..rustlex import parse_items
            sub = parse_items(text)
            if len(sub) != 1 or sub[0].kind != 'impl':
                raise AnchorLost('macro body of impl_check_restrictions_for_int is not a single impl')
            im = sub[0]
            base_line = self._macro_impl_line(mac)
            fobj = _Shift(f, base_line - 1)
            open_container(out, im, fobj)
            out.spec(sec('R_spec.rs', 'int-spec-members'))
            fn = child(im, 'fn', 'check_restrictions')
            splice_fn(out, fn, fobj, f'restrictions::{ty}::check_restrictions', inherits=inh, probe=probe, record=record, imported=imported)
            close_container(out, im, fobj)
        out.edits.append(f'expanded macro {INT_CARRIERS_MACRO}! for {", ".join(types)} by textual substitution of ${t_var}')
        for ty in ('bool', 'f32', 'f64'):
            impl(f'CheckRestrictions for {ty}', f'restrictions::{ty}::check_restrictions', 'never-rejected-spec-members')
        # ghost hint (stability): name the parse axiom instance for this string explicitly
        sim = child(m, 'impl', r'CheckRestrictions for String')
        sfn = child(sim, 'fn', 'check_restrictions')
        hint = []
        for ty in ('i128', 'i64', 'i32'):
            pat = f'self.parse::<{ty}>()'
            if sfn.body.count(pat) == 1:
                stmt = sfn.body[:sfn.body.index(pat)].rstrip().rsplit('\n', 1)[-1]
                # insert before the statement that contains the parse call
                line_start = sfn.body[:sfn.body.index(pat)].rfind('\n') + 1
                first_tok = sfn.body[line_start:].lstrip()
                anchor = first_tok[:first_tok.index(pat) + len(pat)]
                hint = [{'at': anchor, 'where': 'before', 'text': f'            proof {{ crate::ax::parse_{ty}(self@); }}\n'}]
                break
        impl(r'CheckRestrictions for String', 'restrictions::String::check_restrictions', 'string-spec-members',
             ensures=[('full-range', 'res is Ok <==> self.sat(restrictions)')],
             origin={'full-range': 'property'}, inserts=hint)
        # any OTHER impl of the trait in this module (a new carrier, a blanket impl such as `for Arc<C>`) takes part in method
        # resolution of the code under contract: it is emitted as it is.  It has no specification (dom / sat), so Verus rejects the
        # file and the unit becomes undecided-by-proof; the replay harnesses then decide on the real code.
        for c in m.children:
            if c.kind == 'impl' and id(c) not in handled and id(c) != id(vim) and re.search(r'\bCheckRestrictions\s+for\b', c.name):
                emit_verbatim(out, c, f)
                out.uncontracted.append(f'{f}: impl {" ".join(c.name.split())} (line {c.line_span[0]}) has no specification')
        close_container(out, m, f)
        return types

    # ---------------------------------------------------------------------------------- helpers
    def emit_helpers(self, out: Out, probe: bool, record: bool = True, imported=None):
        f = self.file
        m = one(self.items, 'mod', 'helpers')
        open_container(out, m, f, '    use vstd::prelude::*;\n    use crate::{reqwest, yaserde};\n'
                                  '    use crate::reqwest::{net_allowed, want_url, want_body, want_auth, transport_ok, the_response, body_read_ok, display};\n'
                                  '    use crate::yaserde::{ser_string, de_string};')
        emit_uses(out, m, f)
        out.spec(sec('S_spec.rs', 'helpers-spec'))
        req = [('in-domain', 'req.dom(None)'),
               ('net-only-if-valid', 'req.sat(None) ==> net_allowed()'),
               ('wanted-url', 'want_url() == url@'),
               ('wanted-body', 'ser_string::<YI>(req) is Ok ==> want_body() == ser_string::<YI>(req)->Ok_0'),
               ('wanted-auth', 'want_auth() == wanted_auth_of(credentials)')]
        ens = [('invalid-request-is-error', '!req.sat(None) ==> res is Err'),
               ('no-value-for-failed-exchange', 'res is Ok ==> good_exchange::<YI, YO>(req)'),
               ('value-is-parsed-reply', 'res is Ok ==> res->Ok_0 == de_string::<YO>(the_response().body)->Ok_0'),
               ('good-exchange-yields-value', 'good_exchange::<YI, YO>(req) ==> res is Ok')]
        org = {'invalid-request-is-error': 'property', 'no-value-for-failed-exchange': 'property',
               'value-is-parsed-reply': 'property', 'good-exchange-yields-value': 'property'}
        known = {'send_soap_request_using_client', 'send_soap_request'}
        fn = child(m, 'fn', 'send_soap_request_using_client')
        self._guard_single_send(fn)
        # Verus cannot take a datatype constructor as a function value: eta-expand
        # `map_err(SoapError::YaserdeError)` into a closure with the constructor's meaning as postcondition.
        # Purely additive: the original tokens stay in place between the inserted prefix and suffix.
        PAT = 'map_err(SoapError::YaserdeError)'
        n_eta = fn.body.count(PAT)
        eta = []
        for k in range(n_eta):
            eta.append({'at': PAT, 'occurrence': k, 'offset': len('map_err('), 'inline': True,
                        'text': '|e: String| -> (r: SoapError) ensures r == SoapError::YaserdeError(e) { '})
            eta.append({'at': PAT, 'occurrence': k, 'offset': len(PAT) - 1, 'inline': True, 'text': '(e) }'})
        if n_eta:
            out.edits.append(f'helpers::send_soap_request_using_client: eta-expanded {n_eta} x `map_err(SoapError::YaserdeError)` '
                             'to `map_err(|e: String| -> (r: SoapError) ensures r == SoapError::YaserdeError(e) { SoapError::YaserdeError(e) })` '
                             '(Verus does not support a constructor as a function value; original tokens kept in place)')
        splice_fn(out, fn, f, 'helpers::send_soap_request_using_client', requires=req, ensures=ens, origin=org,
                  probe=probe, record=record, inserts=eta, imported=imported)
        fn2 = child(m, 'fn', 'send_soap_request')
        splice_fn(out, fn2, f, 'helpers::send_soap_request', requires=req, ensures=ens, origin=org, probe=probe, record=record, imported=imported)
        for c in m.children:
            if c.kind == 'fn' and c.name not in known:
                emit_verbatim(out, c, f)
                out.uncontracted.append(f'{f}: fn {c.name} (line {c.line_span[0]})')
        close_container(out, m, f)

    @staticmethod
    def _guard_single_send(fn: Item):
        """'at most one POST per call': `send` is the only wire operation of the stand-in, it consumes its builder, it
        REQUIRES the builder to be `unsent()` (granted once per `post()`, not duplicated by try_clone). What this
        contract cannot bound is a send inside a loop that builds a fresh request each time: checked syntactically
        here; if it occurs the argument does not apply -> inconclusive."""
        from ..rustlex import body_loops, loop_body_open
        toks = fn.toks
        sends = [k for k in range(fn.open, fn.last) if toks[k].kind == 'ident' and toks[k].text == 'send'
                 and toks[k - 1].text == '.' and toks[_next_sig(toks, k + 1)].text == '(']
        loops = body_loops(fn)
        for lk in loops:
            ob = loop_body_open(toks, lk)
            cl = match_close(toks, ob)
            if any(ob < k < cl for k in sends):
                raise AnchorLost('send_soap_request_using_client: `.send(` inside a loop; the single-POST argument (one sendable '
                                 'builder per post(), consumed by send) does not bound the number of requests there')

    # -------------------------------------------------------------------------------- multi_ref
    def emit_multi_ref(self, out: Out, probe: bool, record: bool = True):
        f = self.file
        m = one(self.items, 'mod', 'multi_ref')
        open_container(out, m, f, '    use vstd::prelude::*;\n    use crate::{yaserde, xml};')
        emit_uses(out, m, f)
        emit_verbatim(out, child(m, 'struct', 'MultiRef'), f)
        out.spec(sec('M_spec.rs', 'multiref-view'))
        known = set()

        def impl(name_re, fns, members_section=None):
            im = child(m, 'impl', name_re)
            known.add(id(im))
            open_container(out, im, f)
            if members_section:
                out.spec(sec('M_spec.rs', members_section))
            for c in im.children:
                if c.kind == 'type':
                    emit_verbatim(out, c, f)
            seen = set()
            for c in im.children:
                if c.kind != 'fn':
                    continue
                if c.name not in fns:
                    raise AnchorLost(f'{im.path()}: method {c.name} has no contract')
                seen.add(c.name)
                kw = dict(fns[c.name])
                fid = kw.pop('fid')
                splice_fn(out, c, f, fid, probe=probe, record=record, **kw)
            if seen != set(fns):
                raise AnchorLost(f'{im.path()}: methods {sorted(set(fns) - seen)} not found')
            close_container(out, im, f)

        P = {'origin': None}
        impl(r'< T > MultiRef < T >', {'new': dict(fid='multi_ref::MultiRef::new', ensures=[('wraps-value', 'res.get() == inner')],
                                                   origin={'wraps-value': 'property'})})
        impl(r'< C > CheckRestrictions for MultiRef < C > where C : CheckRestrictions',
             {'check_restrictions': dict(fid='multi_ref::MultiRef::check_restrictions', inherits=['accepts-valid', 'rejects-invalid'])},
             'check-restrictions-members')
        impl(r'< T : YaDeserialize > YaDeserialize for MultiRef < T >',
             {'deserialize': dict(fid='multi_ref::MultiRef::deserialize', inherits=['deserializes-as-inner'])}, 'deserialize-members')
        impl(r'< T : YaSerialize > YaSerialize for MultiRef < T >',
             {'serialize': dict(fid='multi_ref::MultiRef::serialize', inherits=['serializes-as-inner']),
              'serialize_attributes': dict(fid='multi_ref::MultiRef::serialize_attributes', inherits=['attributes-as-inner'])},
             'serialize-members')
        impl(r'< T : Default > Default for MultiRef < T >', {'default': dict(fid='multi_ref::MultiRef::default')})
        impl(r'< T : Clone > Clone for MultiRef < T >',
             {'clone': dict(fid='multi_ref::MultiRef::clone', ensures=[('clone-same-value', 'res.get() == self.get()')],
                            origin={'clone-same-value': 'property'})})
        impl(r'< T > Deref for MultiRef < T >',
             {'deref': dict(fid='multi_ref::MultiRef::deref', ensures=[('deref-is-inner', '**res == self.get()')],
                            origin={'deref-is-inner': 'helper'})})
        for c in m.children:
            if c.kind == 'impl' and id(c) not in known:
                if 'Debug' in c.name:
                    out.dropped.append(f'{c.path()} (Debug output is not part of the property)')
                else:
                    # an impl this table does not know: keep the text compiling, never claim it
                    emit_verbatim(out, c, f)
                    out.uncontracted.append(f'{f}: impl {c.name} (line {c.line_span[0]})')
            if c.kind == 'fn':
                emit_verbatim(out, c, f)
                out.uncontracted.append(f'{f}: fn {c.name} (line {c.line_span[0]})')
        close_container(out, m, f)

    @staticmethod
    def _param_name(fn: Item) -> str:
        # second parameter name of check_restrictions
        toks = fn.toks
        k = _next_sig(toks, fn.kw + 1)
        k = _next_sig(toks, k + 1)
        assert toks[k].text == '('
        cl = match_close(toks, k)
        depth = 0
        names = []
        j = k + 1
        start = True
        while j < cl:
            t = toks[j]
            if t.text in '([{<' and t.kind == 'punct':
                depth += 1
            elif t.text in ')]}>' and t.kind == 'punct':
                depth -= 1
            elif t.text == ',' and depth == 0:
                start = True
            elif start and t.kind == 'ident' and toks[_next_sig(toks, j + 1)].text == ':':
                names.append(t.text)
                start = False
            j += 1
        if not names:
            raise AnchorLost('check_restrictions has no named parameter')
        return names[0]

    @staticmethod
    def _macro_types(call: Item) -> List[str]:
        toks = call.toks
        k = call.kw
        while toks[k].text != '(' and toks[k].text != '{' and toks[k].text != '[':
            k += 1
        cl = match_close(toks, k)
        inner = call.src[toks[k].end:toks[cl].start]
        return [t.strip() for t in inner.split(',') if t.strip()]

    @staticmethod
    def _macro_impl(mac: Item):
        toks = mac.toks
        k = mac.kw
        end = mac.last
        # find `impl` ident inside the macro body
        idx = [j for j in range(k, end) if toks[j].kind == 'ident' and toks[j].text == 'impl']
        if len(idx) != 1:
            raise AnchorLost('macro impl_check_restrictions_for_int: expected one impl in the body')
        j = idx[0]
        b = j
        while toks[b].text != '{':
            b += 1
        cl = match_close(toks, b)
        text = mac.src[toks[j].start:toks[cl].end]
        m = re.search(r'\$\(\s*\$(\w+)\s*:\s*ty\s*\)', mac.src[toks[k].start:toks[j].start])
        if not m:
            raise AnchorLost('macro impl_check_restrictions_for_int: cannot find the $t:ty matcher')
        return text, m.group(1)

    @staticmethod
    def _macro_impl_line(mac: Item) -> int:
        toks = mac.toks
        j = next(j for j in range(mac.kw, mac.last) if toks[j].kind == 'ident' and toks[j].text == 'impl')
        return mac.line_of(toks[j].start)


class _Shift(str):
    """a file name that also carries a line offset (for text re-parsed out of a macro body)"""
    def __new__(cls, name, offset):
        o = super().__new__(cls, name)
        o.offset = offset
        return o
