"""Unit W — C15 (and the writers' share of C13): every function that writes generated text to the sink.

Contract of every writer (trait WriteXml::write_xml and each free writer function):
    requires !old(w).failed() && old(w).complete()
    ensures  res is Ok ==> !final(w).failed() && final(w).complete()
i.e. a success result is never reported once any write on the sink failed, and nothing is silently
dropped; together with panic freedom (no unwrap/expect on a write result) this is the property.
"""
from __future__ import annotations
import re
from ..core import Unit
from ..splice import Out, AnchorLost, splice_fn, emit_verbatim
from .gen import Gen, SRC, sections, spec_section
from .hc import child, open_container, close_container
from .r import HEAD, TAIL

PRE = '!(*old({w})).failed() && (*old({w})).complete()'
POST = 'res is Ok ==> !(*final({w})).failed() && (*final({w})).complete()'
# ("the error is the Io variant" cannot be stated here: Verus does not see through the From conversion of `?`; the replay harness checks it)

MOD_HEAD = '''pub mod zeep {
    use vstd::prelude::*;
    use std::{io, rc::Rc, collections::HashMap, fmt::{Display, Formatter}};
    use crate::iospec::*;
    use crate::inflector::cases::{pascalcase::to_pascal_case, snakecase::to_snake_case};
    use crate::url_standin::Url;
    use crate::roxmltree;
    broadcast use crate::ax::display_ref;
'''


def STATIC(pat):
    """Verus' syntax macro needs the (implied) 'static lifetime of a function-local `const X: &str` spelled out"""
    return {'at': pat, 'where': 'after', 'inline': True, 'text': "'static "}


def sink_name(fn) -> str:
    m = re.search(r'(\w+)\s*:\s*&\s*mut\s+W\b', fn.header)
    if not m:
        raise AnchorLost(f'{fn.path()}: no `&mut W` parameter')
    return m.group(1)


class UnitW(Unit):
    name = 'W'
    props = ('C15',)

    def build(self, repo, probe=False):
        out = Out()
        G = Gen(repo)
        # const_format's concatc!/formatc! build the header text at compile time; the text itself is
        # irrelevant to the sink contract, so the macros are stood in by an empty literal (trusted)
        from ..core import trusted_chunk
        trusted_chunk(out, '#![allow(unused_imports)]\nmacro_rules! concatc { ($($t:tt)*) => { "" } }\n'
                           'macro_rules! formatc { ($($t:tt)*) => { "" } }\n')
        self._trusted_macros = ['stand-in macros concatc!/formatc! (const_format): expand to an empty literal']
        out.spec(HEAD)
        self._trusted = []
        from .r import prelude
        # std contracts the unchanged tree does not need are added when a writer file starts calling the function (listed in that run's trusted base)
        import glob, os, re
        wsrc = ''.join(open(f, encoding='utf-8').read() for f in glob.glob(os.path.join(repo, 'zeep-lib/src/model/**/*.rs'), recursive=True) if not f.endswith('helpers_content.rs'))
        on_demand = ['stdspec-string-build'] if re.search(r'String::with_capacity\s*\(', wsrc) else []
        self._trusted += prelude(out, ['ax-display-ref', 'stdspec-as-deref', 'stdspec-bytelen', 'stdspec-as-bytes', 'stdspec-contains'] + on_demand)
        self._trusted += sections(out, 'dep_io.rs', ['io-write-ghost', 'fmt-ghost'])
        self._trusted += sections(out, 'dep_misc.rs', ['inflector', 'url', 'roxmltree-error'])
        out.spec(MOD_HEAD)
        self._probe = probe
        self.emit_types(out, G, verify_display=True)
        self.emit_writers(out, G, probe)
        out.spec('}\n' + TAIL)
        # all extracted items live in ONE module here, so crate-relative paths of zeep-lib are flattened to the bare item name
        n = 0
        for c in out.chunks:
            if c.origin and 'crate::' in c.text:
                t2 = re.sub(r'\bcrate::(?:model|error|reader|utils)(?:::\w+)*::(\w+)', r'\1', c.text)
                if t2 != c.text:
                    c.text = t2
                    n += 1
        if n:
            out.edits.append(f'crate-relative paths (crate::model::..::Item) flattened to the bare item name in {n} code chunk(s): the unit holds all extracted items in one module')
        return out

    # ------------------------------------------------------------------------------------------
    def emit_types(self, out: Out, G: Gen, verify_display: bool = False):
        G.verbatim(out, 'error.rs', 'type', 'WriterResult')
        G.verbatim(out, 'error.rs', 'enum', 'WriterError')
        self._trusted += sections(out, 'W_glue.rs', ['thiserror-from'])
        G.verbatim(out, 'model/mod.rs', 'struct', 'Namespace')
        self._trusted += sections(out, 'W_glue.rs', ['namespace-eq'])
        G.verbatim(out, 'model/field.rs', 'struct', 'Field')
        G.verbatim(out, 'model/field.rs', 'enum', 'RustFieldType')
        G.verbatim(out, 'model/field.rs', 'struct', 'OtherRustType')
        if not verify_display:
            # units that only reuse the data model (D, F) keep the contract-free stand-in
            self._trusted += sections(out, 'W_glue.rs', ['rustfieldtype-display'])
        else:
            self._emit_display(out, G)
        self._emit_types_rest(out, G)

    def _emit_display(self, out: Out, G: Gen):
        # `impl Display for RustFieldType` is formatted straight into the sink by the writers: it must propagate a failed piece
        # (contract over a ghost flag of the Formatter), otherwise io::Write::write_fmt turns a sink failure into Ok
        out.spec('''    impl vstd::std_specs::fmt::DisplaySpecImpl for RustFieldType {
        open spec fn fmt_req(&self, f: &core::fmt::Formatter<'_>) -> bool { true }
    }''')
        dim = G.top('model/field.rs', 'impl', r'Display for RustFieldType')
        open_container(out, dim, SRC + 'model/field.rs')
        splice_fn(out, child(dim, 'fn', 'fmt'), SRC + 'model/field.rs', 'field::RustFieldType::fmt',
                  ensures=[('display-propagates-failure', 'res is Ok ==> crate::fmtspec::fmt_failed(final(f)) == crate::fmtspec::fmt_failed(old(f))')],
                  origin={'display-propagates-failure': 'property'}, probe=self._probe, sink='f')
        close_container(out, dim, SRC + 'model/field.rs')

    def _emit_types_rest(self, out: Out, G: Gen):
        G.verbatim(out, 'model/structures/mod.rs', 'enum', 'RustType')
        G.verbatim(out, 'model/structures/complex.rs', 'struct', 'ComplexProps')
        G.verbatim(out, 'model/structures/simple.rs', 'struct', 'SimpleProps')
        G.verbatim(out, 'model/structures/element.rs', 'struct', 'ElementProps')
        G.verbatim(out, 'model/structures/element.rs', 'enum', 'ElementType')
        G.verbatim(out, 'model/structures/restrictions.rs', 'struct', 'Restrictions')
        G.verbatim(out, 'model/node.rs', 'struct', 'RustNode')
        G.verbatim(out, 'model/soap/binding/mod.rs', 'type', 'XmlName')
        G.verbatim(out, 'model/soap/binding/mod.rs', 'type', 'SoapAction')
        G.verbatim(out, 'model/soap/binding/mod.rs', 'struct', 'SoapBinding')
        G.verbatim(out, 'model/soap/binding/mod.rs', 'struct', 'SoapOperation')
        G.verbatim(out, 'model/soap/binding/mod.rs', 'struct', 'SoapEnvelope')
        G.verbatim(out, 'model/soap/service.rs', 'struct', 'SoapService')
        G.verbatim(out, 'model/soap/message.rs', 'struct', 'SoapMessage')
        G.verbatim(out, 'model/soap/port.rs', 'struct', 'SoapPort')
        G.verbatim(out, 'model/soap/port.rs', 'struct', 'SoapOperation') if False else None
        G.verbatim(out, 'model/doc.rs', 'struct', 'RustDocument')
        G.verbatim(out, 'model/file_header.rs', 'struct', 'FileHeader')
        G.verbatim(out, 'model/helpers.rs', 'struct', 'Helpers')

    # ------------------------------------------------------------------------------------------
    def emit_writers(self, out: Out, G: Gen, probe):
        # the trait, with the contract every impl inherits
        f = SRC + 'reader.rs'
        tr = G.top('reader.rs', 'trait', 'WriteXml')
        open_container(out, tr, f)
        tfn = child(tr, 'fn', 'write_xml')
        w = sink_name(tfn)
        splice_fn(out, tfn, f, 'reader::WriteXml::write_xml',
                  requires=[('sink-clean', PRE.format(w=w))],
                  ensures=[('no-false-success', POST.format(w=w))], origin={'no-false-success': 'property'})
        close_container(out, tr, f)
        self.probe = probe

        def auto_loops(fn, w, kw):
            from ..rustlex import body_loops
            loops = dict(kw.get('loops') or {})
            for k in range(len(body_loops(fn))):
                loops.setdefault(k, {'invariants': [(f'loop{k}-sink-clean', f'!(*{w}).failed() && (*{w}).complete()')]})
            kw['loops'] = loops

        def free(rel, name, fid, **kw):
            fn = G.top(rel, 'fn', name)
            w = sink_name(fn)
            auto_loops(fn, w, kw)
            kw['opaque'] = list(kw.get('opaque', [])) + list(kw.pop('opaque_extra', []))
            splice_fn(out, fn, SRC + rel, fid, requires=[('sink-clean', PRE.format(w=w))],
                      ensures=[('no-false-success', POST.format(w=w))], origin={'no-false-success': 'property'},
                      probe=probe, sink=w, **kw)

        def impl(rel, name_re, fid, pre=None, **kw):
            im = G.top(rel, 'impl', name_re)
            if pre:
                pre()
            if kw.pop('opaque_from_stash', False):
                kw['opaque'] = self._stashed
            open_container(out, im, SRC + rel)
            fn = child(im, 'fn', 'write_xml')
            auto_loops(fn, sink_name(fn), kw)
            splice_fn(out, fn, SRC + rel, fid, inherits=['no-false-success'], probe=probe, sink=sink_name(fn), **kw)
            close_container(out, im, SRC + rel)

        # ---- helper (non-writer) functions the writers call
        for name in ('rename_keywords', 'as_field_name'):
            fn = G.top('model/field.rs', 'fn', name)
            splice_fn(out, fn, SRC + 'model/field.rs', f'field::{name}', probe=probe)
        fim = G.top('model/field.rs', 'impl', 'RustFieldType')
        open_container(out, fim, SRC + 'model/field.rs')
        for c in fim.children:
            if c.kind == 'fn':
                splice_fn(out, c, SRC + 'model/field.rs', f'field::RustFieldType::{c.name}', probe=probe)
        close_container(out, fim, SRC + 'model/field.rs')
        fn = G.top('model/structures/mod.rs', 'fn', 'xml_name_to_rust_name')
        splice_fn(out, fn, SRC + 'model/structures/mod.rs', 'structures::xml_name_to_rust_name', probe=probe)
        rim = G.top('model/structures/mod.rs', 'impl', 'RustType')
        open_container(out, rim, SRC + 'model/structures/mod.rs')
        splice_fn(out, child(rim, 'fn', 'xml_name'), SRC + 'model/structures/mod.rs', 'structures::RustType::xml_name',
                  ensures=[('ignore-has-no-name', '(self is Ignore) <==> res is None')], origin={'ignore-has-no-name': 'helper'}, probe=probe)
        close_container(out, rim, SRC + 'model/structures/mod.rs')
        self.emit_file_header_consts(out)

        # ---- the writers: DISCOVERED by signature (every function of these files that takes the sink `&mut W`), so that a
        # refactor which moves writing code into a new function is still covered
        OPS = "Vec<(&'static XmlName, &'static SoapOperation)>"
        NODES = "Vec<&'static Rc<RustNode>>"
        # pure sub-expressions Verus cannot process, wherever they occur in a writer: (anchor, type, flex)
        PATTERNS = [
            ("rust_type.to_string().split(':').next_back()", "Option<&'static str>", False),
            ('self.rust_type == RustType::Ignore', 'bool', False),
            ('operation_name.replace("*/", "* /").replace("/*", "/ *")', 'String', False),
            ('operation .output .as_ref() .map(|_| format!("{operation_name}OutputEnvelope"))', 'Option<String>', True),
            ('xmlns .iter() .map(|(k, v)| format!("\\"{k}\\" = \\"{v}\\"")) .collect::<Vec<String>>() .join(", ")', 'String', True),
            ('xmlns .iter() .map(|(k, v)| format!("\\"{k}\\" = {v:?}")) .collect::<Vec<String>>() .join(", ")', 'String', True),
            ('&self.binding.operations', OPS, False),
            ('&self.operations', OPS, False),
            ('self .nodes .iter() .filter(|n| n.in_namespace.as_deref() == Some(namespace))', NODES, True),
            ('self.nodes.iter().filter(|n| n.in_namespace.is_none())', NODES, True),
        ]

        def flexrx(pat):
            return re.compile(r'\s*'.join(re.escape(x) for x in pat.split(' ')))

        def special(fn):
            """opaque / for_each / lifetime splices that apply to this function, by pattern presence"""
            kw = {'opaque': [], 'inserts': [], 'foreach': []}
            body = fn.body
            for pat, ty, flex in PATTERNS:
                n = len(flexrx(pat).findall(body)) if flex else body.count(pat)
                for k in range(n):
                    kw['opaque'].append(G.opaque(out, pat, ty, flex=flex, occurrence=(k if n > 1 else None)))
            if "comment.split('\\n').for_each(" in body:
                kw['foreach'].append(G.opaque(out, "comment.split('\\n').for_each(", "Vec<&'static str>"))
            elif "in comment.split('\\n')" in body:
                kw['opaque'].append(G.opaque(out, "comment.split('\\n')", "Vec<&'static str>"))
            elif "in comment.replace('\\r', \"\").split('\\n')" in body:
                kw['opaque'].append(G.opaque(out, "comment.replace('\\r', \"\").split('\\n')", "Vec<&'static str>"))
            for m_ in re.finditer(r'const \w+: &(?!\s*\')', body):
                kw['inserts'].append(STATIC(m_.group(0)))
            return kw

        def is_sink_fn(fn):
            return fn.kind == 'fn' and fn.open is not None and re.search(r'&\s*mut\s+W\b', fn.header) is not None

        def fid_of(rel, owner, name):
            base = rel[len('model/'):-3].replace('/', '::') if rel.startswith('model/') else rel[:-3]
            return f'{base}::{owner + "::" if owner else ""}{name}'

        FILES = ['model/structures/restrictions.rs', 'model/helpers.rs', 'model/file_header.rs', 'model/field.rs', 'model/structures/writer.rs',
                 'model/node.rs', 'model/soap/service.rs', 'model/soap/binding/writer.rs', 'model/doc.rs']
        self.discovered = []
        self.pure_helpers = []
        for rel in FILES:
            nested = rel == 'model/soap/binding/writer.rs'     # its signatures say `super::SoapOperation`
            items = [it for it in G.items(rel) if it.kind in ('fn', 'impl')]
            plan = []
            for it in items:
                if it.kind == 'fn' and is_sink_fn(it):
                    plan.append(('free', it, [it]))
                elif it.kind == 'impl':
                    fns = [c for c in it.children if is_sink_fn(c)]
                    if fns:
                        plan.append(('impl', it, fns))
            specials = {id(fn): special(fn) for _, _, fns in plan for fn in fns}      # opaque declarations are emitted here, before the items
            # pure helper functions of the same file that a writer calls (they never see the sink): kept as contract-free
            # external functions, i.e. their result is unconstrained and their body is NOT verified here
            bodies = ' '.join(fn.body for _, _, fns in plan for fn in fns)
            for it in items:
                if it.kind == 'fn' and it.open is not None and not is_sink_fn(it) and re.search(r'\b' + re.escape(it.name) + r'\s*\(', bodies) \
                        and it.name not in self.pure_helpers and it.name != 'xml_name_to_rust_name':
                    out.spec('    #[verifier::external_body]')
                    out.chunks[-1].trusted = True
                    out.code(it.src[it.toks[it.head_first].start:it.toks[it.open].start] + '{ unimplemented!() }\n', SRC + rel, it.line_of(it.toks[it.head_first].start))
                    self.pure_helpers.append(it.name)
                    out.dropped.append(f'body of pure helper fn {it.name} ({SRC + rel}): called by a writer, takes no sink; its result is unconstrained and its body is not verified here')
            if nested and plan:
                out.spec('    pub mod binding_writer {\n        use super::*;\n        broadcast use crate::ax::display_ref;')
            for kind, it, fns in plan:
                if kind == 'free':
                    fn = fns[0]
                    w = sink_name(fn)
                    kw = specials[id(fn)]
                    auto_loops(fn, w, kw)
                    fid = fid_of(rel, '', fn.name)
                    splice_fn(out, fn, SRC + rel, fid, requires=[('sink-clean', PRE.format(w=w))],
                              ensures=[('no-false-success', POST.format(w=w))], origin={'no-false-success': 'property'},
                              probe=probe, sink=w, **kw)
                    self.discovered.append(fid)
                else:
                    is_trait_impl = re.search(r'WriteXml\s*<\s*W\s*>\s*for\s+(\w+)', it.name)
                    owner = is_trait_impl.group(1) if is_trait_impl else re.sub(r'\W+', '_', it.name).strip('_')
                    open_container(out, it, SRC + rel)
                    for fn in fns:
                        w = sink_name(fn)
                        kw = specials[id(fn)]
                        auto_loops(fn, w, kw)
                        fid = fid_of(rel, owner, fn.name)
                        if is_trait_impl and fn.name == 'write_xml':
                            splice_fn(out, fn, SRC + rel, fid, inherits=['no-false-success'], probe=probe, sink=w, **kw)
                        else:
                            splice_fn(out, fn, SRC + rel, fid, requires=[('sink-clean', PRE.format(w=w))],
                                      ensures=[('no-false-success', POST.format(w=w))], origin={'no-false-success': 'property'},
                                      probe=probe, sink=w, **kw)
                        self.discovered.append(fid)
                    close_container(out, it, SRC + rel)
            if nested and plan:
                out.spec('    }')
        if len(self.discovered) < 15:
            raise AnchorLost(f'only {len(self.discovered)} writer functions discovered (expected the ~23 of the pinned tree)')

    def emit_file_header_consts(self, out):
        out.dropped.append('model/file_header.rs: consts PKG_VERSION, VERSION (only used inside the concatc! invocation, which is stood in)')

    def _stash(self, d):
        self._stashed = [d]

    def comment_loop(self, out, G, rel, name):
        """the doc-comment lines: `for line in comment.split('\\n') { writeln!(..)?; }` — str::split is outside
        Verus' reach (its Pattern trait has a generic associated type), so the iterable expression is
        replaced by an unconstrained finite Vec<&str>; the loop body stays and is verified for every
        number of lines."""
        fn = G.top(rel, 'fn', name)
        if "comment.split('\\n').for_each(" in fn.body:
            d = G.opaque(out, "comment.split('\\n').for_each(", "Vec<&'static str>")
            return {'foreach': [d]}
        if "for line in comment.split('\\n')" in fn.body:
            return {'opaque_extra': [G.opaque(out, "comment.split('\\n')", "Vec<&'static str>")]}
        return {}

    def field_loops(self, G, rel, name):
        return {}

    def emit_file_header(self, out, G, probe):
        rel = 'model/file_header.rs'
        out.dropped.append('model/file_header.rs: consts PKG_VERSION, VERSION (only used inside the concatc! invocation, which is stood in)')
        im = G.top(rel, 'impl', r'< W > WriteXml < W > for FileHeader where W : io :: Write')
        open_container(out, im, SRC + rel)
        fn = child(im, 'fn', 'write_xml')
        splice_fn(out, fn, SRC + rel, 'file_header::FileHeader::write_xml', inherits=['no-false-success'], probe=probe,
                  inserts=[STATIC('const HEADER: &')])
        close_container(out, im, SRC + rel)

    def props_of(self, ob):
        return ['C15', 'C13'] if ob.endswith('#safety') else ['C15']

    def props_of_failure(self, f):
        if not f.obligation.endswith('#safety'):
            return ['C15']
        if f.sub.endswith('sink-clean'):
            return ['C15']                       # a write result was discarded: the sink state is unknown afterwards
        if any(re.search(r'\b(write|writeln)!\s*\(|\bwriter\b', e.get('text', '')) for e in f.exits):
            return ['C15', 'C13']                # unwrap/expect on the result of a write: panic caused by the sink
        return ['C13']                           # panic caused by input data, not by the sink

    def trusted_base(self):
        return list(self._trusted) + list(self._trusted_macros)

    def aux_files(self, repo):
        import os
        return {'helpers_content.rs': os.path.join(repo, SRC, 'model/helpers_content.rs')}

    def env(self):
        return {'CARGO_PKG_VERSION': '0.0.0'}
