"""L3 pipeline: per corpus program, verify the text emitted by the current generator against
schema-derived specifications (see vp/l3/specgen.py)."""
from __future__ import annotations
import os
import re
from typing import Dict, List, Optional, Tuple

from ..core import Unit, VERIF, trusted_chunk, read_sections, Inconclusive
from ..splice import Out, AnchorLost, splice_fn, emit_verbatim, _line
from ..rustlex import Item
from .hc import HelpersContent, open_container, close_container, child, C
from .r import prelude, HEAD, TAIL
from .gen import sections
from ..l3 import model as M
from ..l3.specgen import Emitted, Spec, Disagreement, field_ident_ok, rust_lit

BCAST = 'broadcast use {crate::ax::rc_clone_eq, crate::ax::string_peq};'


RESOLVE_OB = 'shape:emitted-file#member-types-resolve'
UNIQUE_OB = 'shape:emitted-file#member-names-unique'
ONEITEM_OB = 'shape:emitted-file#one-item-per-name'


class Program(Unit):
    """one (schema set, emitted file, concern) triple; concern in {'C07','C02','C05'}"""

    def __init__(self, name: str, schema: str, emitted: str, model: M.Model, concern: str):
        self.name = name
        self.schema = schema
        self.emitted_path = emitted
        self.model = model
        self.concern = concern
        self.props = (concern,)
        self._trusted: List[str] = []
        self.unverified: List[str] = []
        self.derived_own = set()
        self.derived_own_ns = set()      # (namespace, Pascal name): precise key (two namespaces may both have a type of that name)
        self.exclude = set()

    def trusted_base(self):
        return list(self._trusted)

    def props_of(self, ob):
        return [self.concern]

    # ---- C05: element QNames on the wire live in #[yaserde(..)] attribute TEXT; compared as text with what the WSDL binds
    def wire_checks(self):
        """[(obligation label, ok, detail)] — decided by comparing attribute text, not by the verifier"""
        if self.concern != 'C05':
            return []
        sp, em, m = self.sp, self.em, self.model
        res = []
        roots = em.structs(None)

        def attr(txt, key):
            mm = re.search(key + r'\s*=\s*"([^"]*)"', txt)
            return mm.group(1) if mm else None

        def expect(label, st, idx, want_prefix, want_name):
            if st is None:
                res.append((label, False, 'struct not emitted'))
                return
            fs = Emitted.fields(st)
            if idx >= len(fs):
                res.append((label, False, 'member not emitted'))
                return
            a = fs[idx][2]
            got = (attr(a, 'prefix'), attr(a, 'rename'))
            ok = got == (want_prefix, want_name)
            res.append((label, ok, f'emitted prefix/rename {got}, bound element is {{{want_prefix}}}{want_name}'))
        for op in m.operations:
            env0 = next((n for n in roots if canon(n) == canon(op.name) + 'inputenvelope'), M.pascal(op.name) + 'InputEnvelope')
            P = env0[:-len('InputEnvelope')]
            for side, heads, body in (('Input', op.input_headers, op.input_body), ('Output', op.output_headers, op.output_body)):
                if body is None:
                    continue
                env = f'{P}{side}Envelope'
                pre = lambda ns: em.mod_prefix.get(sp.module_of(ns))
                expect(f'wire:{env}Body.{body[2]}#element-qname', roots.get(env + 'Body'), 0, pre(body[1]), body[2])
                for i, h in enumerate(heads):
                    expect(f'wire:{env}Header.{h[0]}#element-qname', roots.get(env + 'Header'), i, pre(h[1]), h[2])
                k = 0
                if heads:
                    expect(f'wire:{env}.header#soap-header', roots.get(env), 0, 'soapenv', 'Header')
                    k = 1
                expect(f'wire:{env}.body#soap-body', roots.get(env), k, 'soapenv', 'Body')
                st = roots.get(env)
                if st is not None:
                    a = em.attr_text(st)
                    ok = attr(a, 'prefix') == 'soapenv' and attr(a, 'rename') == 'Envelope' and '"soapenv" = "http://schemas.xmlsoap.org/soap/envelope/"' in a
                    res.append((f'wire:{env}#soap-envelope-element', ok, 'struct attribute ' + a[:160]))
        # the service methods (async, not verified by Verus) must hand exactly the stored client, address and credentials and the
        # request to the helper that is proved in unit S: compared as a token sequence
        WANT_CALL = 'helpers :: send_soap_request_using_client ( & self . client , & self . location , credentials , req ) . await'
        WANT_CRED = 'let credentials = self . credentials . as_ref ( ) . map ( | ( u , p ) | ( u . as_str ( ) , p . as_str ( ) ) ) ;'
        for it in em.root:
            if it.kind == 'impl' and m.service and it.name == m.service:
                for c in it.children:
                    if c.kind == 'fn' and c.name != 'new' and c.open is not None:
                        body = ' '.join(t.text for t in c.toks[c.open + 1:c.last] if t.kind not in ('ws', 'comment', 'doc'))
                        ok = body == WANT_CRED + ' ' + WANT_CALL
                        res.append((f'wire:{it.name}::{c.name}#forwards-client-address-credentials-request', ok, 'method body: ' + body[:300]))
        return res

    # ---- C02 / C08: member ORDER (a struct pattern is insensitive to field order, so this is compared on the index)
    def order_checks(self):
        if self.concern not in ('C02', 'C08'):
            return []
        sp, em, m = self.sp, self.em, self.model
        res = []
        for key, ct in m.complex.items():
            if self.concern == 'C08' and ct.base is None:
                continue
            mod = sp.module_of(key[0])
            st = em.structs(em.mods[mod]).get(M.pascal(key[1]))
            if st is None:
                continue        # reported by the shape contract
            got = [f[0] for f in Emitted.fields(st)]
            want = [M.snake(x.name) for x in m.all_members(key)]
            ok = len(got) == len(want) and all(field_ident_ok(w, g) for w, g in zip(want, got))
            res.append((f'order:{mod}::{M.pascal(key[1])}#members-in-declaration-order', ok, f'emitted order {got}, declared order {want}'))
        return res

    # ---- C08: inherited members keep the namespace of the schema that declared them (attribute text)
    def c08_checks(self):
        if self.concern != 'C08':
            return []
        sp, em, m = self.sp, self.em, self.model
        res = []
        for key, ct in m.complex.items():
            if ct.base is None:
                continue
            mod = sp.module_of(key[0])
            st = em.structs(em.mods[mod]).get(M.pascal(key[1]))
            if st is None:
                res.append((f'ns:{mod}::{M.pascal(key[1])}#struct-emitted', False, 'struct for the derived type is not emitted'))
                continue
            fs = Emitted.fields(st)
            mem = m.all_members(key)
            for i, x in enumerate(mem):
                lab = f'ns:{mod}::{M.pascal(key[1])}.{x.name}#declaring-namespace-kept'
                if i >= len(fs):
                    res.append((lab, False, 'member not emitted'))
                    continue
                mm = re.search(r'prefix\s*=\s*"([^"]*)"', fs[i][2])
                got = mm.group(1) if mm else None
                if x.kind == 'attribute':
                    continue          # attributes are unqualified in the subset
                want = em.mod_prefix.get(sp.module_of(x.ns)) if x.ns else None
                res.append((lab, got == want, f'emitted prefix {got!r}, declaring namespace {x.ns} has prefix {want!r}'))
        return res

    def front_end_obligations(self, out):
        return [c.label for c in out.chunks if c.label and (c.label.startswith('shape:') or c.label.startswith('sig:'))] + \
               ([RESOLVE_OB] if self.concern in ('C02', 'C08', 'C09') else []) + ([UNIQUE_OB] if self.concern in ('C02', 'C08') else []) + ([ONEITEM_OB] if self.concern in ('C02', 'C08', 'C09') else [])

    def front_end_failures(self, out, vr, text):
        """compile errors whose primary span lies in a shape / signature chunk"""
        from ..core import Failure
        lines = text.split('\n')
        fname = os.path.basename(vr.path)
        fails, other = [], 0
        for d in vr.other_errors():
            hit = None
            for sp_ in d.spans:
                if os.path.basename(sp_.get('file_name', '')) != fname:
                    continue
                info = out.describe(sp_['line_start'])
                if info.get('kind') == 'contract' and info.get('label') and (info['label'].startswith('shape:') or info['label'].startswith('sig:')):
                    hit = info['label']
                    break
            dupitem = re.match(r'the name `\w+` is defined multiple times', d.message)
            if not hit and self.concern in ('C02', 'C08', 'C09') and dupitem:
                # two items of one module carry the same name: "exactly one struct" per component fails (e.g. a self alias next to the struct)
                for sp_ in d.spans:
                    if os.path.basename(sp_.get('file_name', '')) != fname:
                        continue
                    info = out.describe(sp_['line_start'])
                    if info.get('kind') == 'code' and str(info.get('file', '')).startswith('emitted:'):
                        f = Failure(self.name, ONEITEM_OB, 'two emitted items of one module have the same name: ' + d.message,
                                    [{'file': info['file'], 'line': info.get('line', 0), 'text': lines[sp_['line_start'] - 1].strip() if 0 < sp_['line_start'] <= len(lines) else '', 'what': 'emitted line'}], d.rendered)
                        f.props = [self.concern]
                        fails.append(f)
                        break
                else:
                    other += 1
                continue
            dup = re.match(r'field `\w+` is already declared', d.message)
            if not hit and self.concern in ('C02', 'C08') and dup:
                # two declared members map to the same Rust field name: "exactly one field per declared element and attribute" fails
                for sp_ in d.spans:
                    if os.path.basename(sp_.get('file_name', '')) != fname:
                        continue
                    info = out.describe(sp_['line_start'])
                    if info.get('kind') == 'code' and str(info.get('file', '')).startswith('emitted:'):
                        f = Failure(self.name, UNIQUE_OB, 'two declared members are emitted under the same field name: ' + d.message,
                                    [{'file': info['file'], 'line': info.get('line', 0), 'text': lines[sp_['line_start'] - 1].strip() if 0 < sp_['line_start'] <= len(lines) else '', 'what': 'emitted line'}], d.rendered)
                        f.props = [self.concern]
                        fails.append(f)
                        break
                else:
                    other += 1
                continue
            if not hit and self.concern in ('C02', 'C08', 'C09') and re.match(r'cannot find (type|struct)|failed to resolve|unresolved', d.message):
                # the EMITTED item itself names a type that does not exist where it is used: the member is not typed by the
                # struct generated for its declared type
                for sp_ in d.spans:
                    if os.path.basename(sp_.get('file_name', '')) != fname:
                        continue
                    info = out.describe(sp_['line_start'])
                    ltxt = lines[sp_['line_start'] - 1] if 0 < sp_['line_start'] <= len(lines) else ''
                    # only a struct member / alias line of the emitted file (`pub x: T,` / `pub type X = T;`): an unresolved path elsewhere
                    # (client methods, helper calls) may be a limit of the stand-ins and stays inconclusive
                    if info.get('kind') == 'code' and str(info.get('file', '')).startswith('emitted:') and re.match(r'\s*pub\s+(type\s+\w+\s*=|(r#)?\w+\s*:)', ltxt):
                        f = Failure(self.name, RESOLVE_OB, 'a type named by the emitted code does not exist in the scope it is used in: ' + d.message,
                                    [{'file': info['file'], 'line': info.get('line', 0), 'text': lines[sp_['line_start'] - 1].strip() if 0 < sp_['line_start'] <= len(lines) else '', 'what': 'emitted line'}], d.rendered)
                        f.props = [self.concern]
                        fails.append(f)
                        hit = None
                        break
                else:
                    other += 1
                continue
            if hit:
                f = Failure(self.name, hit, 'emitted code does not have the declared shape: ' + d.message,
                            [{'file': 'schema:' + os.path.basename(self.schema), 'line': 0, 'text': hit.split('#')[0], 'what': 'shape contract'}],
                            d.rendered)
                f.props = [self.concern]
                fails.append(f)
            else:
                other += 1
        return fails if fails and other == 0 else (fails if fails else [])

    # ------------------------------------------------------------------------------------------
    def build(self, repo, probe=False):
        em = Emitted(self.emitted_path)
        sp = Spec(self.model, em)
        self.em, self.sp = em, sp
        out = Out()
        out.spec(HEAD)
        # Option / Result combinators are not emitted by the unchanged generator; their std contracts are added when the emitted text uses one
        etext = open(self.emitted_path, encoding='utf-8').read().split('pub mod error {')[0]
        on_demand = ['stdspec-option-combinators'] if re.search(r'\.(or_else|or|filter|is_some_and|map_or|and_then|unwrap_or)\s*\(', etext) else []
        self._trusted = prelude(out, ['ax-rc', 'ax-parse', 'ax-string-eq', 'ax-tryfrom', 'ax-from-unsigned',
                                      'stdspec-parse', 'stdspec-chars', 'stdspec-bytelen', 'ax-bytelen', 'stdspec-contains', 'stdspec-drop'] + on_demand,
                                [('dep_reqwest.rs', ['reqwest-error', 'reqwest-client']),
                                 ('dep_yaserde.rs', ['io-traits', 'io-write-trait-opaque', 'io-traits-end', 'xml', 'yaserde-begin', 'yaserde-traits', 'yaserde-end'])])
        for ln in getattr(em, 'presented_or_else', []):
            out.dropped.append(f'emitted:{os.path.basename(self.schema)}:{ln}: `X.or_else(|| E)` presented as `match X {{ Some(v) => Some(v), None => E }}` (definition of Option::or_else; '
                               'Verus infers nothing about a closure without a postcondition)')
        self.check_helpers_verbatim(repo, em)
        efile = 'emitted:' + os.path.basename(self.schema)
        # ---- root `use` lines: keep std ones, drop crates that are stood in
        for it in em.root:
            if it.kind == 'use':
                if re.search(r'\b(log|yaserde_derive)\b', it.text):
                    out.dropped.append(f'emitted `{" ".join(it.text.split())}` (crate stood in / not needed)')
                else:
                    emit_verbatim(out, it, efile)
            elif it.kind == 'const':
                out.dropped.append(f'emitted const {it.name} (unused by the emitted code; Verus wants an explicit lifetime on &str consts)')
        out.spec('use crate::stdspec::{is_numeral, int_of};')
        # ---- namespace modules, in emitted order
        for name, mod in em.mods.items():
            open_container(out, mod, efile, f'    use vstd::prelude::*;\n    {BCAST}')
            self.emit_items(out, mod.children, efile, name, probe)
            close_container(out, mod, efile)
        # ---- root items (envelopes, service, free operation fns, un-namespaced types)
        out.spec(BCAST)
        self.emit_items(out, [i for i in em.root if i.kind not in ('use', 'const', 'inner_attr')], efile, None, probe)
        # ---- the helper runtime, with the L1 contracts (callee contracts of the emitted impls)
        hc = HelpersContent(repo)
        hc.emit_error(out, False, record=False, imported='R')
        hc.emit_restrictions(out, False, record=False, imported='R')
        self._trusted += sections(out, 'L3_glue.rs', ['restrictions-default'])
        hc.emit_helpers(out, False, record=False, imported='S')
        out.spec('pub mod verif_shapes {\n    use vstd::prelude::*;\n    use super::*;')
        self.n_shapes = self.shape_chunks(out)
        out.spec('}')
        out.spec(TAIL)
        return out

    def check_helpers_verbatim(self, repo, em: Emitted):
        """the helper modules at the end of the emitted file must be /repo's helpers_content.rs byte for byte;
        they are then replaced by the L1-annotated extraction of that same file"""
        want = open(os.path.join(repo, 'zeep-lib/src/model/helpers_content.rs'), encoding='utf-8').read()
        if not em.helper_mods:
            raise Disagreement('C01', 'emitted file has no helper modules')
        first = min(m.start for m in em.helper_mods.values())
        got = em.src[first:]
        if got.strip() != want.strip():
            raise Inconclusive('emitted helper modules differ from helpers_content.rs (cannot substitute the L1 extraction)')

    # ------------------------------------------------------------------------------------------
    def emit_items(self, out: Out, items: List[Item], efile: str, modname: Optional[str], probe):
        sp, em, m = self.sp, self.em, self.model
        ns = next((u for u, mn in em.ns_mod.items() if mn == modname), None) if modname else None
        structs = {c.name: c for c in items if c.kind == 'struct'}
        for it in items:
            if it.kind == 'use':
                emit_verbatim(out, it, efile)
            elif it.kind == 'struct':
                emit_verbatim(out, it, efile)
                self.glue_for_struct(out, it)
            elif it.kind == 'type':
                emit_verbatim(out, it, efile)
            elif it.kind == 'impl' and it.name.startswith('restrictions :: CheckRestrictions for '):
                self.emit_check_impl(out, it, efile, modname, ns, structs, probe)
            elif it.kind == 'impl':
                if self.concern == 'C05':
                    self.emit_service_impl(out, it, efile, probe)
                else:
                    out.dropped.append(f'emitted impl {it.name} (service client: decided under C05, not needed here)')
            elif it.kind == 'fn':
                if self.concern == 'C05':
                    self.emit_unverified_fn(out, it, efile, label=f'sig:free::{it.name}#emitted-operation-fn-type-checks')
                else:
                    out.dropped.append(f'emitted fn {it.name} (decided under C05, not needed here)')
            elif it.kind in ('inner_attr',):
                continue
            else:
                raise AnchorLost(f'emitted item kind {it.kind} ({it.name}) not handled')

    def glue_for_struct(self, out: Out, st: Item):
        """stand-ins for the derive-generated impls the emitted code relies on (trusted)"""
        n = st.name
        trusted_chunk(out, f'''    impl yaserde::YaSerialize for {n} {{
        uninterp spec fn ser_spec<W>(&self, writer: yaserde::ser::Serializer<W>) -> (Result<(), String>, yaserde::ser::Serializer<W>);
        uninterp spec fn ser_attrs_spec(&self, attributes: Vec<xml::attribute::OwnedAttribute>, namespace: xml::namespace::Namespace)
            -> Result<(Vec<xml::attribute::OwnedAttribute>, xml::namespace::Namespace), String>;
        #[verifier::external_body]
        fn serialize<W: std::io::Write>(&self, writer: &mut yaserde::ser::Serializer<W>) -> (res: Result<(), String>) {{ unimplemented!() }}
        #[verifier::external_body]
        fn serialize_attributes(&self, attributes: Vec<xml::attribute::OwnedAttribute>, namespace: xml::namespace::Namespace)
            -> (res: Result<(Vec<xml::attribute::OwnedAttribute>, xml::namespace::Namespace), String>) {{ unimplemented!() }}
    }}
    impl yaserde::YaDeserialize for {n} {{
        uninterp spec fn de_spec<R>(reader: yaserde::de::Deserializer<R>) -> (Result<Self, String>, yaserde::de::Deserializer<R>);
        #[verifier::external_body]
        fn deserialize<R: std::io::Read>(reader: &mut yaserde::de::Deserializer<R>) -> (res: Result<Self, String>) {{ unimplemented!() }}
    }}''')

    def emit_unverified_fn(self, out: Out, fn: Item, efile: str, label=None):
        if label and label in self.exclude:
            out.dropped.append(f'emitted fn {fn.name}: excluded after it failed to type-check (reported as {label})')
            return
        hf = fn.head_first
        text = fn.src[fn.toks[hf].start:fn.end]
        trusted_chunk(out, '    #[verifier::external_body]\n' + text + '\n')
        out.chunks[-1].label = label
        self.unverified.append(f'emitted fn {fn.name} (body not verified: forwards to helpers; only its signature is used)')

    # ---- C07: the emitted CheckRestrictions impls --------------------------------------------
    def emit_check_impl(self, out: Out, im: Item, efile: str, modname, ns, structs, probe):
        sp, m = self.sp, self.model
        tname = im.name.rsplit(' ', 1)[1]
        fid = f'emitted::{modname or "root"}::{tname}::check_restrictions'
        fn = child(im, 'fn', 'check_restrictions')
        dom, sat, hints = self.sat_for(tname, ns, structs.get(tname))
        if self.concern != 'C07' or dom is None:
            # not the concern of this file (or no expectation for this type): keep the impl as a declaration only
            open_container(out, im, efile)
            out.spec('        uninterp spec fn dom(&self, r: Option<Rc<restrictions::Restrictions>>) -> bool;\n'
                     '        uninterp spec fn sat(&self, r: Option<Rc<restrictions::Restrictions>>) -> bool;')
            hf = fn.head_first
            trusted_chunk(out, '    #[verifier::external_body]\n' + fn.src[fn.toks[hf].start:fn.end] + '\n')
            close_container(out, im, efile)
            return
        open_container(out, im, efile)
        out.spec(f'        open spec fn dom(&self, r: Option<Rc<restrictions::Restrictions>>) -> bool {{ {dom} }}\n'
                 f'        open spec fn sat(&self, r: Option<Rc<restrictions::Restrictions>>) -> bool {{ {sat} }}')
        inserts = []
        if hints:
            # ghost hint before the final delegation: what the literal restriction set evaluates to
            anchor = 'self.value.check_restrictions(restrictions)'
            if anchor in fn.body:
                inserts.append({'at': anchor, 'where': 'before', 'text': hints})
        extra, origin = [], {}
        if (ns, tname) in self.derived_own_ns:
            # a type derived from a NAMED simple type: "including facets inherited through derivation" is stated as a clause of its own,
            # so that the recorded finding (the OWN facets of such a type are not enforced) cannot hide a loss of the INHERITED ones
            mp = re.search(r'&\s*self\s*,\s*(\w+)\s*:', fn.src[fn.toks[fn.head_first].start:fn.toks[fn.open].start])
            if mp:
                extra = [('enforces-inherited-facets', f'self.dom({mp.group(1)}) && !self.value.sat({mp.group(1)}) ==> res is Err')]
                origin = {'enforces-inherited-facets': 'property'}
        splice_fn(out, fn, efile, fid, inherits=['accepts-valid', 'rejects-invalid'], probe=probe, inserts=inserts, ensures=extra, origin=origin)
        close_container(out, im, efile)

    def sat_for(self, tname: str, ns: Optional[str], st_item: Optional[Item]):
        """(dom, sat, ghost hints) for the emitted struct `tname` of namespace `ns`, from the schema alone"""
        sp, m = self.sp, self.model
        R = 'r'
        if ns is not None:
            for key, s in m.simple.items():
                if key[0] == ns and M.pascal(key[1]) == tname:
                    return self.sat_simple(s)
            for key, c in m.complex.items():
                if key[0] == ns and M.pascal(key[1]) == tname:
                    mem = m.all_members(key)
                    return self.sat_members(self.present(st_item, [M.snake(x.name) for x in mem]))
            return (None, None, None)
        # root: envelopes
        for op in m.operations:
            P = self.op_pascal(op)
            for side, heads, body in (('Input', op.input_headers, op.input_body), ('Output', op.output_headers, op.output_body)):
                if body is None:
                    continue
                env = f'{P}{side}Envelope'
                if tname == env:
                    return self.sat_members((['header'] if heads else []) + ['body'])
                if tname == env + 'Header':
                    return self.sat_members(self.present(st_item, [M.snake(h[0]) for h in heads]))
                if tname == env + 'Body':
                    return self.sat_members(self.present(st_item, [M.snake(body[2])]))
        return (None, None, None)

    def op_pascal(self, op) -> str:
        """the spelling the emitted envelope structs use for this operation (PascalCase up to acronym handling):
        found by a case- and separator-insensitive match, falling back to the reader's own PascalCase"""
        for n in self.em.structs(None):
            if n.endswith('InputEnvelope') and canon(n) == canon(op.name) + 'inputenvelope':
                return n[:-len('InputEnvelope')]
        return M.pascal(op.name)

    def present(self, st_item: Optional[Item], expected: List[str]) -> List[str]:
        """the declared members that exist in the emitted struct (by name, keyword respelling allowed), in declaration
        order.  A member the generator dropped or renamed is C02's finding; it cannot carry a value, so it cannot violate a facet."""
        if st_item is None:
            return expected
        emitted = [f[0] for f in Emitted.fields(st_item)]
        out = []
        for e in expected:
            hit = [x for x in emitted if field_ident_ok(e, x)]
            if hit:
                out.append(hit[0])
        return out

    def field_name(self, st_item: Optional[Item], idx: int, expected: str) -> str:
        if st_item is None:
            return expected
        fs = Emitted.fields(st_item)
        if idx < len(fs) and field_ident_ok(expected, fs[idx][0]):
            return fs[idx][0]
        return expected

    @staticmethod
    def sat_members(names: List[str]):
        dom = ' && '.join(f'self.{n}.dom(r)' for n in names) or 'true'
        sat = ' && '.join(f'self.{n}.sat(r)' for n in names) or 'true'
        return (dom, sat, '')

    def sat_simple(self, s: M.SimpleType):
        sp = self.sp
        own_v, own_d = sp.facets_formula(s, 'self' + sp.text_path(s) + '@')
        if s.base.builtin is not None:
            dom, sat = own_d, own_v
        else:
            # XSD derivation by restriction: the base type's facets AND the own facets apply
            if own_v != 'true':
                self.derived_own.add(M.pascal(s.name))
                self.derived_own_ns.add((s.ns, M.pascal(s.name)))
            dom = f'self.value.dom(r) && {own_d}'
            sat = f'self.value.sat(r) && {own_v}'
        hints = ''
        if s.enum:
            lits = ' '.join(f'reveal_strlit({rust_lit(e)});' for e in s.enum)
            hints = f'        proof {{ {lits} }}\n'
        return (dom, sat, hints)

    # ---- C05: the service client --------------------------------------------------------------
    def emit_service_impl(self, out: Out, im: Item, efile: str, probe):
        """`impl <Service> { pub fn new(..) ; pub async fn <op>(&self, req) .. }`"""
        m = self.model
        open_container(out, im, efile)
        for c in im.children:
            if c.kind != 'fn':
                continue
            if c.name == 'new' and self.concern == 'C05' and m.address is not None and im.name == (m.service or ''):
                lit = rust_lit(m.address)
                anchor = 'Self {'
                ins = [{'at': anchor, 'occurrence': 0, 'where': 'before', 'text': f'        proof {{ reveal_strlit({lit}); }}\n'}] \
                    if anchor in c.body else []
                splice_fn(out, c, efile, f'emitted::{im.name}::new',
                          ensures=[('posts-to-port-address', f'res.location@ == {lit}@'),
                                   ('keeps-credentials', 'res.credentials == credentials')],
                          origin={'posts-to-port-address': 'property', 'keeps-credentials': 'property'}, probe=probe, inserts=ins)
            else:
                self.emit_unverified_fn(out, c, efile, label=f'sig:{im.name}::{c.name}#emitted-method-type-checks')
        close_container(out, im, efile)

    # ---- C02 / C05: shape and signature contracts ----------------------------------------------
    def shape_chunks(self, out: Out):
        """ghost functions that only type-check if the emitted structs have exactly the expected members"""
        sp, em, m = self.sp, self.em, self.model
        n = 0
        if self.concern in ('C02', 'C08', 'C09'):
            for kind, key in m.order:
                if self.concern == 'C08' and not (key in m.complex and m.complex[key].base is not None):
                    continue
                ns, name = key
                mod = sp.module_of(ns)
                P = M.pascal(name)
                modit = em.mods[mod]
                structs, aliases = em.structs(modit), em.aliases(modit)
                if kind == 'simple':
                    s = m.simple[key]
                    vt = 'String' if s.base.builtin is not None else sp.rust_type(s.base)
                    self.shape(out, f'shape:{mod}::{P}', f'{mod}::{P}', [('value', vt, 'value')], key)
                    n += 1
                elif kind == 'complex' or (kind == 'element' and m.elements[key].type is None):
                    mem = m.all_members(key)
                    st = structs.get(P)
                    fs = Emitted.fields(st) if st is not None else []
                    fields = []
                    for i, x in enumerate(mem):
                        exp = M.snake(x.name)
                        got = fs[i][0] if i < len(fs) and field_ident_ok(exp, fs[i][0]) else exp
                        ety = fs[i][1] if i < len(fs) else None
                        fields.append((got, sp.wrap(x.occ, sp.rust_type(x.type, ety)), x.name))
                    self.shape(out, f'shape:{mod}::{P}', f'{mod}::{P}', fields, key)
                    n += 1
                elif kind == 'element':
                    t = m.elements[key].type
                    target = sp.rust_type(t)
                    if t.builtin is None and M.pascal(t.name) == P and sp.module_of(t.ns) == mod:
                        continue        # element named like its type: the type's struct serves
                    if f'shape:{mod}::{P}#alias-of-declared-type' in self.exclude:
                        continue
                    out.spec(f'    pub open spec fn alias_{mod}_{P}(x: {mod}::{P}) -> {target} {{ x }}', label=f'shape:{mod}::{P}#alias-of-declared-type')
                    n += 1
        if self.concern in ('C05', 'C09'):
            for op in m.operations:
                P = self.op_pascal(op)
                for side, heads, body in (('Input', op.input_headers, op.input_body), ('Output', op.output_headers, op.output_body)):
                    if body is None:
                        continue
                    env = f'{P}{side}Envelope'
                    bt = f'{sp.module_of(body[1])}::{M.pascal(body[2])}'
                    bf = M.snake(body[2])
                    stb = em.structs(None).get(env + 'Body')
                    if stb is not None:
                        fs = Emitted.fields(stb)
                        if fs and field_ident_ok(bf, fs[0][0]):
                            bf = fs[0][0]
                    self.shape(out, f'shape:{env}Body', env + 'Body', [(bf, bt, body[2])], None)
                    fields = []
                    if heads:
                        hf = []
                        sth = em.structs(None).get(env + 'Header')
                        fs = Emitted.fields(sth) if sth is not None else []
                        for i, h in enumerate(heads):
                            exp = M.snake(h[0])
                            got = fs[i][0] if i < len(fs) and field_ident_ok(exp, fs[i][0]) else exp
                            hf.append((got, f'Option<{sp.module_of(h[1])}::{M.pascal(h[2])}>', h[0]))
                        self.shape(out, f'shape:{env}Header', env + 'Header', hf, None)
                        fields.append(('header', env + 'Header', 'Header'))
                    fields.append(('body', env + 'Body', 'Body'))
                    self.shape(out, f'shape:{env}', env, fields, None)
                    n += 3
                if self.concern != 'C05':
                    continue
                # one async method per operation, snake_case, request envelope in, response envelope (or unit) out
                ret = f'{P}OutputEnvelope' if op.output_body is not None else '()'
                meth = M.snake(op.name)
                if meth in MUST_ESC:
                    meth = 'r#' + meth
                lab = f'sig:{m.service}::{meth}#one-method-per-operation'
                if lab in self.exclude or f'sig:{m.service}::{meth}#emitted-method-type-checks' in self.exclude:
                    continue
                out.spec(f'    pub async fn sig_{M.snake(op.name)}(s: &{m.service}, req: {P}InputEnvelope) -> error::SoapResult<{ret}> {{ s.{meth}(req).await }}',
                         label=lab)
                n += 1
        return n

    def shape(self, out: Out, label: str, path: str, fields: List[Tuple[str, str, str]], key):
        """(1) an exhaustive destructuring pattern: ill-typed if a member is missing, renamed or undeclared;
        (2) one typed projection per member: ill-typed if that member's wrapper or type differs"""
        fn = re.sub(r'\W+', '_', label)
        if f'{label}#members-as-declared' not in self.exclude:
            pat = ', '.join(f'{f[0]}: _' for f in fields)
            out.spec(f'    pub open spec fn {fn}(x: {path}) -> bool {{ let {path} {{ {pat} }} = x; true }}',
                     label=f'{label}#members-as-declared')
        for i, (fname, ty, xml) in enumerate(fields):
            lab = f'{label}#member-{xml}-typed-as-declared'
            if lab in self.exclude:
                continue
            out.spec(f'    pub open spec fn {fn}_m{i}(x: {path}) -> {ty} {{ x.{fname} }}', label=lab)

    @staticmethod
    def spec_ty(t: str) -> str:
        return t

    @staticmethod
    def spec_val(name: str, t: str) -> str:
        return name


from ..l3.specgen import MUST as MUST_ESC


def canon(name: str) -> str:
    return re.sub(r'[^a-z0-9]', '', name.lower())
