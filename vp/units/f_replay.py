"""Witness search for the L2 half of C09 on the real code: prefixes that collide with generated abbreviations, QNames with 0..2 colons."""
from __future__ import annotations
import re
from ..replay import run_test_module

MODULE = r'''
#[cfg(test)]
mod verif_replay_f {
    use super::*;
    use crate::model::field::{resolve_type, as_rust_type, RustFieldType};
    const URIS: [&str; 5] = ["http://example.org/v1/types", "http://example.org/v2/types", "http://example.org/measurements", "http://example.org/messages", "http://example.org/other"];
    const PFX: [&str; 7] = ["a", "typ", "typ1", "mes", "mea", "oth", "b"];
    #[test]
    fn prefixes() {
        let mut n = 0usize;
        for p1 in 0..PFX.len() { for u1 in 0..URIS.len() { for p2 in 0..PFX.len() { for u2 in 0..URIS.len() { for p3 in [0usize, 3, 4] { for u3 in [2usize, 3] {
            let regs = [(p1, u1), (p2, u2), (p3, u3)];
            let mut d = RustDocument::empty();
            let mut expect: Vec<(usize, usize)> = vec![];
            for (p, u) in regs {
                d.add_namespace_reference(PFX[p], URIS[u]);
                if !expect.iter().any(|(q, _)| *q == p) { expect.push((p, u)); }
            }
            for p in 0..PFX.len() {
                n += 1;
                let want = expect.iter().find(|(q, _)| *q == p).map(|(_, u)| URIS[*u]);
                let got = d.find_namespace_by_abbreviation(PFX[p]).map(|ns| ns.namespace.clone());
                if got.as_deref() != want { println!("F|lookup|{:?} prefix {}|bound to {:?}, declared for {:?}", regs.map(|(p, u)| (PFX[p], URIS[u])), PFX[p], got, want); }
                let q = format!("{}:someThing", PFX[p]);
                let (local, ns) = resolve_type(&q, &d);
                if local != "someThing" || ns.as_ref().map(|x| x.namespace.as_str()) != want { println!("F|resolve|{:?} qname {q}|local {local} ns {:?}, declared {:?}", regs.map(|(p, u)| (PFX[p], URIS[u])), ns.map(|x| x.namespace.clone()), want); }
                if let RustFieldType::Other(o) = as_rust_type(&q, &d) {
                    let wm = want.and_then(|w| d.namespaces.iter().find(|x| x.namespace == w).map(|x| x.rust_mod_name.clone()));
                    if o.module != wm { println!("F|module|{:?} qname {q}|module {:?}, module of the declared namespace {:?}", regs.map(|(p, u)| (PFX[p], URIS[u])), o.module, wm); }
                } else { println!("F|module|qname {q}|not a named type"); }
            }
        } } } } } }
        let d = RustDocument::empty();
        for (q, l) in [("plain", "plain"), ("x:y", "y"), ("x:y:z", "y:z"), (":y", "y"), ("x:", "")] {
            let (local, _) = resolve_type(q, &d);
            if local != l { println!("F|split|qname {q}|local part {local}, expected {l}"); }
        }
        println!("F|done|{n}|");
    }
}
'''


def _search(repo):
    rc, outp = run_test_module(MODULE, 'verif_replay_f::prefixes', repo, host_file='zeep-lib/src/model/doc.rs')
    res = {'lookups_checked': 0, 'anomalies': [], 'n': 0}
    for line in outp.splitlines():
        m = re.match(r'^(?:test \S+ \.\.\. )?F\|(\w+)\|(.*?)\|(.*)$', line)
        if not m:
            continue
        if m.group(1) == 'done':
            res['lookups_checked'] = int(m.group(2))
        else:
            res['n'] += 1
            if len(res['anomalies']) < 8:
                res['anomalies'].append({'aspect': m.group(1), 'input': m.group(2), 'observed': m.group(3)[:400]})
    if res['lookups_checked'] == 0:
        res['error'] = outp[-1500:]
    return res


_MEMO = {}


def search(repo, *a, **kw):
    """one run of the harness per check process and tree (the result is shared by all obligations it decides)"""
    key = (repo, a, tuple(sorted(kw.items())))
    if key not in _MEMO:
        _MEMO[key] = _search(repo, *a, **kw)
    return _MEMO[key]
