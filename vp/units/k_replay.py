"""Witness search for C14 (keyword half): every edition-2024 keyword through the real rename_keywords / as_field_name."""
from __future__ import annotations
import re
from ..replay import run_test_module
from .k import KW


def module_src():
    kws = KW['strict'] + KW['reserved'] + KW['weak'] + ['plain', 'Type', 'r#type', 'type_', '']
    arr = ', '.join('"%s"' % k for k in kws)
    return '''
#[cfg(test)]
mod verif_replay_k {
    use crate::model::field::{rename_keywords, as_field_name};
    #[test]
    fn keywords() {
        for k in [%s] {
            println!("K|{k}|{}|{}", rename_keywords(k), as_field_name(k));
        }
    }
}
''' % arr


def legal_ident(out: str) -> bool:
    must = set(KW['strict'] + KW['reserved'])
    if out.startswith('r#'):
        return out[2:] not in KW['noraw'] and out[2:] != '' and out[2:] != '_'
    return out not in must


def _search(repo):
    rc, outp = run_test_module(module_src(), 'verif_replay_k::keywords', repo)
    res = {'cases': 0, 'mismatches': []}
    must = set(KW['strict'] + KW['reserved'])
    for line in outp.splitlines():
        m_ = re.match(r'^(?:test \S+ \.\.\. )?(K\|.*)$', line)
        if not m_:
            continue
        line = m_.group(1)
        _, k, r, f = line.split('|')
        res['cases'] += 1
        if k in must and (r == k or not legal_ident(r)):
            res['mismatches'].append({'input': k, 'rename_keywords': r, 'problem': 'keyword not respelled to a legal identifier'})
        elif k not in must and k not in KW['weak'] and r != k:
            res['mismatches'].append({'input': k, 'rename_keywords': r, 'problem': 'non-keyword was changed'})
        if not legal_ident(f) and f != '':
            res['mismatches'].append({'input': k, 'as_field_name': f, 'problem': 'field name is not a legal identifier'})
    if res['cases'] == 0:
        res['error'] = outp[-1200:]
    return res


_MEMO = {}


def search(repo, *a, **kw):
    """one run of the harness per check process and tree (the result is shared by all obligations it decides)"""
    key = (repo, a, tuple(sorted(kw.items())))
    if key not in _MEMO:
        _MEMO[key] = _search(repo, *a, **kw)
    return _MEMO[key]


# ---- sanitisers (round 11): service_type_name and the abbreviation stem, on the real code -------------------------------------
SERVICE_NAMES = ['ItemsService', '0x', '1', '007', '5_', '٣x', 'x٣', 'a-b', 'a.b', 'Ab9_', 'gen', 'try', 'macro_rules', 'Self_', 'é_', '_é', 'Φ', '_', '__', '9x', 'Ünï', 'self', 'Self', 'type', 'crate', 'super', 'union', 'a-b.c', 'a b', 'x"y', '日本', '_9', 'r#type', '']
URIS = ['http://example.com/types', 'urn:x', 'http://example.com/', 'http://e.com/a-"b', 'http://e.com/Φ', 'http://e.com/a b', 'http://e.com/{x}', 'http://e.com/9', '',
        'http://e.com/x-', 'http://e.com/a\\b', "http://e.com/a'b", 'http://e.com/ÄÖÜ', 'http://e.com/a\nb']


def _rs(s):
    return '"' + ''.join(c if c.isascii() and c.isprintable() and c not in '"\\' else '\\u{%x}' % ord(c) for c in s) + '"'


def plain_or_raw_ident(s: str) -> bool:
    must = set(KW['strict'] + KW['reserved'])
    def plain(x):
        return bool(re.fullmatch(r'[A-Za-z_][A-Za-z0-9_]*', x)) and x != '_'
    if s.startswith('r#'):
        return plain(s[2:]) and s[2:] not in KW['noraw']
    return plain(s) and s not in must


def _search_sanitisers(repo):
    res = {'cases': 0, 'mismatches': []}
    src = '''
#[cfg(test)]
mod verif_replay_ks {
    #[test]
    fn names() { for n in [%s] { println!("KS|svc|{}|{}", n.escape_default(), super::service_type_name(n)); } }
}
''' % ', '.join(_rs(n) for n in SERVICE_NAMES)
    rc, outp = run_test_module(src, 'verif_replay_ks::names', repo, host_file='zeep-lib/src/model/soap/service.rs')
    src2 = '''
#[cfg(test)]
mod verif_replay_ks {
    #[test]
    fn stems() { for u in [%s] { println!("KS|abbr|{}|{}", u.escape_default(), super::make_abbreviated_namespace(u, &[])); } }
}
''' % ', '.join(_rs(u) for u in URIS)
    rc2, outp2 = run_test_module(src2, 'verif_replay_ks::stems', repo, host_file='zeep-lib/src/model/doc.rs')
    for line in (outp + '\n' + outp2).splitlines():
        m_ = re.match(r'^(?:test \S+ \.\.\. )?KS\|(svc|abbr)\|(.*)\|(.*)$', line)
        if not m_:
            continue
        res['cases'] += 1
        kind, inp, got = m_.groups()
        if kind == 'svc' and not plain_or_raw_ident(got):
            res['mismatches'].append({'function': 'service_type_name', 'input': inp, 'result': got, 'problem': 'the service struct name is not a legal identifier'})
        if kind == 'abbr' and not re.fullmatch(r'[A-Za-z0-9_]*', got):
            res['mismatches'].append({'function': 'make_abbreviated_namespace', 'input': inp, 'result': got, 'problem': 'the abbreviation contains a character that is not an identifier character'})
    if res['cases'] == 0:
        res['error'] = (outp + outp2)[-1500:]
    return res


def search_sanitisers(repo):
    key = ('ks', repo)
    if key not in _MEMO:
        _MEMO[key] = _search_sanitisers(repo)
    return _MEMO[key]
