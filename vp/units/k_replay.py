"""Witness search for C14 (keyword half): every edition-2024 keyword through the real rename_keywords / as_field_name."""
from __future__ import annotations
import re
from ..replay import run_test_module
from .k import KW


def module_src():
    kws = KW['strict'] + KW['reserved'] + KW['weak'] + ['plain', 'Type', 'r#type', 'type_', '']
    arr = ', '.join('"%s"' % k for k in kws)
    return '''
#[cfg(test)]
mod verif_replay_k {
    use crate::model::field::{rename_keywords, as_field_name};
    #[test]
    fn keywords() {
        for k in [%s] {
            println!("K|{k}|{}|{}", rename_keywords(k), as_field_name(k));
        }
    }
}
''' % arr


def legal_ident(out: str) -> bool:
    must = set(KW['strict'] + KW['reserved'])
    if out.startswith('r#'):
        return out[2:] not in KW['noraw'] and out[2:] != '' and out[2:] != '_'
    return out not in must


def _search(repo):
    rc, outp = run_test_module(module_src(), 'verif_replay_k::keywords', repo)
    res = {'cases': 0, 'mismatches': []}
    must = set(KW['strict'] + KW['reserved'])
    for line in outp.splitlines():
        m_ = re.match(r'^(?:test \S+ \.\.\. )?(K\|.*)$', line)
        if not m_:
            continue
        line = m_.group(1)
        _, k, r, f = line.split('|')
        res['cases'] += 1
        if k in must and (r == k or not legal_ident(r)):
            res['mismatches'].append({'input': k, 'rename_keywords': r, 'problem': 'keyword not respelled to a legal identifier'})
        elif k not in must and k not in KW['weak'] and r != k:
            res['mismatches'].append({'input': k, 'rename_keywords': r, 'problem': 'non-keyword was changed'})
        if not legal_ident(f) and f != '':
            res['mismatches'].append({'input': k, 'as_field_name': f, 'problem': 'field name is not a legal identifier'})
    if res['cases'] == 0:
        res['error'] = outp[-1200:]
    return res


_MEMO = {}


def search(repo, *a, **kw):
    """one run of the harness per check process and tree (the result is shared by all obligations it decides)"""
    key = (repo, a, tuple(sorted(kw.items())))
    if key not in _MEMO:
        _MEMO[key] = _search(repo, *a, **kw)
    return _MEMO[key]
