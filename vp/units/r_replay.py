"""Witness search + replay for C06 on the real helpers_content.rs (a replay aid; the deciding step is
Verus).  A grid of boundary (carrier, value, restriction set) triples is run through the real
`check_restrictions` in a scratch copy of zeep-lib and compared with an oracle written from the
property's wording."""
from __future__ import annotations
import re
from typing import List, Optional

from ..replay import run_test_module

INT_TYPES = {
    'i8': (-2**7, 2**7 - 1), 'u8': (0, 2**8 - 1), 'i16': (-2**15, 2**15 - 1), 'u16': (0, 2**16 - 1),
    'i32': (-2**31, 2**31 - 1), 'u32': (0, 2**32 - 1), 'i64': (-2**63, 2**63 - 1), 'u64': (0, 2**64 - 1),
}
BOUNDS = ['None', 'Some(i32::MIN)', 'Some(-1)', 'Some(0)', 'Some(5)', 'Some(i32::MAX)']


def _int_values(ty):
    lo, hi = INT_TYPES[ty]
    cand = {lo, lo + 1, -2, -1, 0, 1, 4, 5, 6, hi - 1, hi, -2**31, -2**31 - 1, -2**31 + 1, 2**31 - 1, 2**31, 2**31 - 2}
    return sorted(v for v in cand if lo <= v <= hi)


STR_VALUES = ['', 'a', 'é', 'ab', 'éé', 'abc', '5', '-1', '+5', '005', '4', '6', '2147483648', '-2147483649',
              '9223372036854775808', '170141183460469231731687303715884105728', '5 ', 'x5', '-', '+',
              # fractional lexical forms: the String carrier compares INTEGER numerals (unit R's specification); a fraction is not one
              '5.5', '4.5', '-0.5', '10.999', '1e1', '5.0']
STR_NUM = ['None', 'Some(5)', 'Some(-1)']
STR_LEN = ['None', 'Some(1)', 'Some(2)']
STR_ENUM = ['None', 'Some(vec![])', 'Some(vec!["a".to_string()])', 'Some(vec!["é".to_string(), "5".to_string()])']


def module_src() -> str:
    ints = []
    for ty in INT_TYPES:
        vals = ', '.join(f'{v}{ty}' if v >= 0 else f'({v}{ty})' for v in _int_values(ty))
        ints.append(f'''
        for v in [{vals}] {{
            println!("R|{ty}|{{v}}|none|{{}}", v.check_restrictions(None).is_ok());
            for mi in B {{ for ma in B {{ for me in B {{ for mx in B {{
                let r = Rc::new(Restrictions {{ min_inclusive: mi, max_inclusive: ma, min_exclusive: me, max_exclusive: mx, ..Default::default() }});
                println!("R|{ty}|{{v}}|{{mi:?}};{{ma:?}};{{me:?}};{{mx:?}};None;None;None;None|{{}}", v.check_restrictions(Some(r)).is_ok());
            }} }} }} }}
        }}''')
    sv = ', '.join('"%s"' % s for s in STR_VALUES)
    return '''
#[cfg(test)]
mod verif_replay_r {
    use crate::model::helpers_content::restrictions::{CheckRestrictions, Restrictions};
    use std::rc::Rc;
    const B: [Option<i32>; %d] = [%s];
    #[test]
    fn grid() {%s
        for v in [true, false] { println!("R|bool|{v}|none|{}", v.check_restrictions(None).is_ok());
            let r = Rc::new(Restrictions { min_inclusive: Some(5), max_length: Some(0), ..Default::default() });
            println!("R|bool|{v}|any|{}", v.check_restrictions(Some(r)).is_ok()); }
        for v in [0.0f64, -1.5, f64::MAX, f64::NAN] { println!("R|f64|{v}|none|{}", v.check_restrictions(None).is_ok());
            let r = Rc::new(Restrictions { min_inclusive: Some(5), max_length: Some(0), ..Default::default() });
            println!("R|f64|{v}|any|{}", v.check_restrictions(Some(r.clone())).is_ok());
            println!("R|f32|{v}|any|{}", (v as f32).check_restrictions(Some(r)).is_ok()); }
        let sn: [Option<i32>; %d] = [%s];
        let sl: [Option<usize>; %d] = [%s];
        for s in [%s] {
            let s = s.to_string();
            println!("R|String|{s:?}|none|{}", s.check_restrictions(None).is_ok());
            for mi in sn { for ma in sn { for me in sn { for mx in sn { for l in sl { for minl in sl { for maxl in sl {
                for e in [%s] {
                    let es = format!("{e:?}");
                    let r = Rc::new(Restrictions { min_inclusive: mi, max_inclusive: ma, min_exclusive: me, max_exclusive: mx,
                        length: l, min_length: minl, max_length: maxl, enumeration: e });
                    println!("R|String|{s:?}|{mi:?};{ma:?};{me:?};{mx:?};{l:?};{minl:?};{maxl:?};{es}|{}", s.check_restrictions(Some(r)).is_ok());
                }
            } } } } } } }
        }
        // Option / Vec delegation
        let r = Rc::new(Restrictions { min_inclusive: Some(5), ..Default::default() });
        println!("R|Option<i32>|None|Some(5);None;None;None;None;None;None;None|{}", None::<i32>.check_restrictions(Some(r.clone())).is_ok());
        println!("R|Option<i32>|Some(4)|Some(5);None;None;None;None;None;None;None|{}", Some(4i32).check_restrictions(Some(r.clone())).is_ok());
        println!("R|Option<i32>|Some(5)|Some(5);None;None;None;None;None;None;None|{}", Some(5i32).check_restrictions(Some(r.clone())).is_ok());
        println!("R|Vec<i32>|[]|Some(5);None;None;None;None;None;None;None|{}", Vec::<i32>::new().check_restrictions(Some(r.clone())).is_ok());
        println!("R|Vec<i32>|[5, 6]|Some(5);None;None;None;None;None;None;None|{}", vec![5i32, 6].check_restrictions(Some(r.clone())).is_ok());
        println!("R|Vec<i32>|[5, 4, 6]|Some(5);None;None;None;None;None;None;None|{}", vec![5i32, 4, 6].check_restrictions(Some(r.clone())).is_ok());
        println!("R|Vec<i32>|[5, 6, 4]|Some(5);None;None;None;None;None;None;None|{}", vec![5i32, 6, 4].check_restrictions(Some(r.clone())).is_ok());
    }
}
''' % (len(BOUNDS), ', '.join(BOUNDS), ''.join(ints), len(STR_NUM), ', '.join(STR_NUM), len(STR_LEN), ', '.join(STR_LEN), sv,
       ', '.join(STR_ENUM))


def _opt(s: str) -> Optional[int]:
    s = s.strip()
    if s == 'None':
        return None
    m = re.fullmatch(r'Some\((-?\d+)\)', s)
    return int(m.group(1))


def _enum(s: str):
    s = s.strip()
    if s == 'None':
        return None
    return re.findall(r'"((?:[^"\\]|\\.)*)"', s)


NUMERAL = re.compile(r'[+-]?[0-9]+')


def num_ok(v: int, mi, ma, me, mx) -> bool:
    return (mi is None or v >= mi) and (ma is None or v <= ma) and (me is None or v > me) and (mx is None or v < mx)


def expected(carrier: str, value: str, facets: str) -> Optional[bool]:
    """the property's answer; None = outside the property's domain (no expectation)"""
    if facets == 'none':
        return True
    if carrier in ('bool', 'f32', 'f64'):
        return True
    mi, ma, me, mx, ln, minl, maxl = (_opt(x) for x in facets.split(';')[:7])
    en = _enum(';'.join(facets.split(';')[7:]))
    if carrier in INT_TYPES:
        if ln is not None or minl is not None or maxl is not None or en is not None:
            return None
        return num_ok(int(value), mi, ma, me, mx)
    if carrier == 'String':
        s = value[1:-1]
        n = len(s)
        ok = (minl is None or n >= minl) and (maxl is None or n <= maxl) and (ln is None or n == ln)
        ok = ok and (en is None or s in en)
        if any(x is not None for x in (mi, ma, me, mx)):
            ok = ok and bool(NUMERAL.fullmatch(s)) and num_ok(int(s), mi, ma, me, mx)
        return ok
    if carrier.startswith('Option<') or carrier.startswith('Vec<'):
        vals = [int(x) for x in re.findall(r'-?\d+', value)]
        return all(num_ok(v, mi, ma, me, mx) for v in vals)
    return None


def _search(repo: str, carrier_filter: Optional[str] = None, known=()) -> dict:
    """run the grid on the real code; return {'cases': n, 'mismatches': [...]}"""
    rc, outp = run_test_module(module_src(), 'verif_replay_r::grid', repo)
    cases = 0
    mism = []
    for line in outp.splitlines():
        m_ = re.match(r'^(?:test \S+ \.\.\. )?(R\|.*)$', line)
        if not m_:
            continue
        line = m_.group(1)
        parts = line.split('|')
        carrier, value, facets, ok = parts[1], '|'.join(parts[2:-2]), parts[-2], parts[-1]
        cases += 1
        exp = expected(carrier, value, facets)
        if exp is None:
            continue
        if (ok == 'true') != exp:
            mism.append({'carrier': carrier, 'value': value, 'restrictions(minInclusive;maxInclusive;minExclusive;maxExclusive;length;minLength;maxLength;enumeration)': facets,
                         'observed_ok': ok == 'true', 'expected_ok': exp})
    res = {'cases': cases, 'rc': rc, 'mismatches': mism}
    if cases == 0:
        res['error'] = outp[-1500:]
    return res


def carrier_of(obligation: str) -> Optional[str]:
    m = re.match(r'restrictions::([^:]+)::check_restrictions', obligation)
    return m.group(1) if m else None


_MEMO = {}


def search(repo, *a, **kw):
    """one run of the harness per check process and tree (the result is shared by all obligations it decides)"""
    key = (repo, a, tuple(sorted(kw.items())))
    if key not in _MEMO:
        _MEMO[key] = _search(repo, *a, **kw)
    return _MEMO[key]
