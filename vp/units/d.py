"""Unit D — C10: the namespace table of RustDocument (doc.rs): URI <-> prefix/module stays injective under every mutator."""
from __future__ import annotations
import re
from ..core import Unit
from ..splice import Out, AnchorLost, splice_fn, emit_verbatim
from .gen import Gen, SRC, sections, spec_section, emit_const_static
from .hc import child, open_container, close_container
from .r import HEAD, TAIL, prelude
from .w import UnitW, MOD_HEAD


# ghost reasoning after `self.namespaces.push(x)`: the table grew by one entry; `listed` is monotone
PUSH_HINT = '''
        proof {
            let old_ns = (*old(self)).namespaces@;
            let new_ns = self.namespaces@;
            assert(new_ns =~= old_ns.push(new_ns.last()));
            assert forall|n: Rc<Namespace>| listed(old_ns, n) implies listed(new_ns, n) by {
                let i = choose|i: int| 0 <= i < old_ns.len() && ns_same(*(#[trigger] old_ns[i]), *n);
                assert(ns_same(*new_ns[i], *n));
            }
            assert(listed(new_ns, new_ns.last())) by { assert(ns_same(*new_ns[new_ns.len() - 1], *new_ns.last())); }
            assert(ns_injective(new_ns));
            assert(mod_names_ok(new_ns));
        }
'''


def nested_fn_text(fn, name):
    """exact source text of the nested `fn name(..) {..}` item inside `fn` (located with the lexer, so any body is accepted)"""
    from ..rustlex import match_close, _next_sig
    from ..splice import AnchorLost
    toks = fn.toks
    k = fn.open + 1
    while k < fn.last:
        t = toks[k]
        if t.kind == 'ident' and t.text == 'fn':
            j = _next_sig(toks, k + 1)
            if toks[j].text == name:
                b = j
                while toks[b].text != '{':
                    b += 1
                e = match_close(toks, b)
                return fn.src[t.start:toks[e].end]
        k += 1
    raise AnchorLost(f'nested fn {name} not found in {fn.name}')


class UnitD(Unit):
    name = 'D'
    props = ('C10',)

    def build(self, repo, probe=False):
        out = Out()
        G = Gen(repo)
        out.spec('#![feature(allocator_api)]\n#![feature(panic_internals)]\n#![allow(unused_imports)]\n' + HEAD)
        self._trusted = prelude(out, ['ax-rc', 'ax-string-eq', 'ax-str-ext', 'ax-display-ref', 'ax-hash-string', 'ax-extend', 'stdspec-contains', 'stdspec-extend', 'stdspec-assert-failed',
                                      'stdspec-as-deref', 'stdspec-option-combinators', 'stdspec-slice-iter', 'ax-slice-iter', 'stdspec-string-eq-str', 'stdspec-lowercase'])
        self._trusted += sections(out, 'dep_io.rs', ['io-write-ghost'])
        self._trusted += sections(out, 'dep_misc.rs', ['inflector', 'url', 'roxmltree-node'])
        out.spec(MOD_HEAD.replace('broadcast use crate::ax::display_ref;',
                                  'broadcast use {crate::ax::display_ref, crate::ax::rc_clone_eq, crate::ax::string_peq, crate::ax::str_ext, '
                                  'crate::ax::string_key_model, crate::ax::str_peq, crate::ax::string_of_view, crate::ax::view_string_of, crate::ax::borrowed_string_key, crate::ax::into_seq_vec, crate::ax::into_map_hashmap, crate::ax::iter_seq_is_remaining, vstd::std_specs::hash::group_hash_axioms};\n'
                                  '    use crate::stdspec::peq;'))
        w = UnitW()
        w._trusted = []
        w.emit_types(out, G)
        self._trusted += w._trusted
        out.spec(spec_section('D_spec.rs', 'namespace-table-spec'))
        rel = 'model/doc.rs'
        f = SRC + rel
        # WELL_KNOWN_NAMESPACES (reader.rs)
        emit_const_static(out, G.top('reader.rs', 'const', 'WELL_KNOWN_NAMESPACES'), SRC + 'reader.rs', opaque_value=True)
        self.emit_free(out, G, rel, f, probe)
        self.emit_methods(out, G, rel, f, probe)
        self.emit_collect(out, G, probe)
        out.spec('}\n' + TAIL)
        return out

    def emit_free(self, out, G, rel, f, probe):
        fn = G.top(rel, 'fn', 'create_mod_name_for_namespace')
        # `format!("mod_{abbreviation}")`: vstd says nothing about the text format! produces, so this one-line function's
        # contract is ASSUMED (listed as such), not proved
        splice_fn(out, fn, f, 'doc::create_mod_name_for_namespace', probe=False,
                  ensures=[('module-name-is-mod-prefix', 'res@ == "mod_"@ + abbreviation@')],
                  imported='none - ASSUMED: the text produced by format! is opaque to Verus')
        fn = G.top(rel, 'fn', 'extend_no_duplicates')
        splice_fn(out, fn, f, 'doc::extend_no_duplicates', probe=probe,
                  ensures=[('keeps-existing-prefix', '(*final(me))@.len() >= (*old(me))@.len() && forall|i: int| 0 <= i < (*old(me))@.len() ==> (*final(me))@[i] == (*old(me))@[i]'),
                           ('adds-only-from-other', 'forall|j: int| (*old(me))@.len() <= j < (*final(me))@.len() ==> other@.contains(#[trigger] (*final(me))@[j])'),
                           ],
                  origin={'keeps-existing-prefix': 'helper', 'adds-only-from-other': 'helper'},
                  inserts=[{'at': '{', 'occurrence': 0, 'where': 'after', 'text': '    let ghost other0 = other@;'}],
                  loops={0: {'kind': 'for', 'iter': 'it', 'invariants': [
                      ('loop-iterates-other', 'it.seq() == other0'),
                      ('loop-prefix', 'me@.len() >= (*old(me))@.len() && forall|i: int| 0 <= i < (*old(me))@.len() ==> me@[i] == (*old(me))@[i]'),
                      ('loop-from-other', 'forall|j: int| (*old(me))@.len() <= j < me@.len() ==> other0.contains(#[trigger] me@[j])'),
                      ]}})

    def emit_methods(self, out, G, rel, f, probe):
        # ---- make_abbreviated_namespace: the 3-character stem is computed with str::split / chars().filter().take().collect(),
        # which Verus cannot process; the stem is irrelevant to uniqueness, so it is an unconstrained String
        fn = G.top(rel, 'fn', 'make_abbreviated_namespace')
        STEM = ("if let Some(last_segment) = namespace.split('/').next_back() { if let Some(slashed) = last_segment.split('-').next_back() { "
                "take_three_chars_max(slashed) } else { take_three_chars_max(last_segment) } } else { take_three_chars_max(namespace) }")
        ops = [G.opaque(out, STEM, 'String', flex=True)]
        # the nested helper item is dropped whole, whatever its body says (its value and its panic freedom are NOT verified here:
        # the bounded C13 harness feeds it adversarial URIs instead)
        nested = nested_fn_text(fn, 'take_three_chars_max')
        ops.append(G.opaque(out, nested, '()', flex=True, suffix=';'))
        out.dropped.append('nested fn take_three_chars_max of make_abbreviated_namespace (stem computation: pure, iterator adapters; unverified)')
        splice_fn(out, fn, f, 'doc::make_abbreviated_namespace', probe=probe, opaque=ops, sink='\0',
                  ensures=[('fresh-abbreviation', 'forall|i: int| 0 <= i < existing_namespaces@.len() ==> (#[trigger] existing_namespaces@[i]).abbreviation@ != res@')],
                  origin={'fresh-abbreviation': 'property'},
                  loops={0: {'kind': 'loop', 'invariants': [('counter-below-255', 'append is Some ==> append->0 < 255')],
                             'decreases': '255 - (if append is Some { append->0 as int } else { -1 })',
                             'body_prefix': '        proof { assert(existing_namespaces@.as_ref().unref() =~= existing_namespaces@); }'}},
                  closures=[{'at': '|ns| ns.abbreviation == use_abbreviation', 'ensures': 'b == (ns.abbreviation@ == use_abbreviation@)'}],
                  )
        im = G.top(rel, 'impl', 'RustDocument')
        open_container(out, im, f)
        WF_PRE = [('table-well-formed', 'wf(*old(self))')]
        HINT = lambda v: f'        proof {{ assert({v}@.as_ref().unref() =~= {v}@); }}\n'
        splice_fn(out, child(im, 'fn', 'empty'), f, 'doc::RustDocument::empty', probe=probe,
                  ensures=[('empty-table-well-formed', 'wf(res)')], origin={'empty-table-well-formed': 'helper'})
        for name in ('find_module_name_from_namespace_reference', 'find_namespace_by_abbreviation', 'find_namespace'):
            splice_fn(out, child(im, 'fn', name), f, f'doc::RustDocument::{name}', probe=probe)
        cl_url = [{'at': '|ns| ns.namespace == url', 'ensures': 'b == (ns.namespace@ == url@)', 'all': True}]
        splice_fn(out, child(im, 'fn', 'add_namespace_reference'), f, 'doc::RustDocument::add_namespace_reference', probe=probe,
                  requires=WF_PRE,
                  ensures=[('keeps-table-injective', 'wf(*final(self))'),
                           ('existing-bindings-unchanged', 'forall|k: String| lookup_of(*old(self)).contains_key(k) ==> lookup_of(*final(self)).contains_key(k) && lookup_of(*final(self))[k] == lookup_of(*old(self))[k]'),
                           ('new-binding-points-to-uri', 'forall|k: String| lookup_of(*final(self)).contains_key(k) && !lookup_of(*old(self)).contains_key(k) ==> k@ == original_abbreviation@ && lookup_of(*final(self))[k].namespace@ == url@')],
                  origin={'keeps-table-injective': 'property', 'existing-bindings-unchanged': 'property', 'new-binding-points-to-uri': 'property'},
                  closures=cl_url,
                  inserts=[{'pos': 'body_start', 'text': HINT('self.namespaces')},
                           {'pos': 'body_end', 'text': PUSH_HINT}])
        cl_ns = [{'at': '|ns| ns.namespace == namespace', 'ensures': 'b == (ns.namespace@ == namespace@)', 'all': True},
                 {'at': '|ns| ns.namespace != namespace', 'ensures': 'b == (ns.namespace@ != namespace@)', 'all': True}]
        sw = child(im, 'fn', 'switch_to_target_namespace')
        sw_ins = []
        if 'self.current_target_namespace = Some(existing.clone());' in sw.body:
            sw_ins.append({'at': 'self.current_target_namespace = Some(existing.clone());', 'where': 'before', 'text': '''
            proof {
                assert(self.target_namespaces@.as_ref().unref() =~= self.target_namespaces@);
                assert(listed(self.target_namespaces@, *existing)) by {
                    let i = choose|i: int| 0 <= i < self.target_namespaces@.len() && *existing == #[trigger] self.target_namespaces@[i];
                    assert(ns_same(*self.target_namespaces@[i], **existing));
                }
            }
'''})
        sw_ins.append({'pos': 'body_start', 'text': HINT('self.target_namespaces') + HINT('self.namespaces')})
        sw_ins.append({'at': '.unwrap_or_else(||', 'where': 'after', 'inline': True,
                       'text': ' -> (r: Rc<Namespace>) ensures r.namespace@ == namespace@, r.rust_mod_name@ == "mod_"@ + r.abbreviation@, '
                               'forall|i: int| 0 <= i < self.namespaces@.len() ==> (#[trigger] self.namespaces@[i]).abbreviation@ != r.abbreviation@'})
        sw_ins.append({'at': 'self.current_target_namespace = Some(tns);', 'where': 'after', 'text': '''
            proof {
                let old_ns = (*old(self)).namespaces@;
                let new_ns = self.namespaces@;
                let old_t = (*old(self)).target_namespaces@;
                let new_t = self.target_namespaces@;
                assert(new_ns =~= old_ns.push(new_ns.last()));
                assert(new_t =~= old_t.push(new_t.last()));
                assert(new_t.last() == new_ns.last());
                assert forall|n: Rc<Namespace>| listed(old_ns, n) implies listed(new_ns, n) by {
                    let i = choose|i: int| 0 <= i < old_ns.len() && ns_same(*(#[trigger] old_ns[i]), *n);
                    assert(ns_same(*new_ns[i], *n));
                }
                assert(listed(new_ns, new_ns.last())) by { assert(ns_same(*new_ns[new_ns.len() - 1], *new_ns.last())); }
                assert(listed(new_t, new_t.last())) by { assert(ns_same(*new_t[new_t.len() - 1], *new_t.last())); }
                assert(ns_injective(new_ns));
                assert(mod_names_ok(new_ns));
            }
'''})
        splice_fn(out, sw, f, 'doc::RustDocument::switch_to_target_namespace', probe=probe, inserts=sw_ins,
                  requires=WF_PRE,
                  ensures=[('keeps-table-injective', 'wf(*final(self))'),
                           ('current-module-is-that-namespace', 'current_of(*final(self)) is Some && current_of(*final(self))->0.namespace@ == namespace@')],
                  origin={'keeps-table-injective': 'property', 'current-module-is-that-namespace': 'property'},
                  closures=cl_ns)
        splice_fn(out, child(im, 'fn', 'extend'), f, 'doc::RustDocument::extend', probe=probe,
                  requires=WF_PRE + [('other-table-well-formed', 'wf(other)')],
                  ensures=[('keeps-table-injective', 'wf(*final(self))'),
                           ('existing-bindings-unchanged', 'forall|k: String| lookup_of(*old(self)).contains_key(k) ==> lookup_of(*final(self)).contains_key(k) && lookup_of(*final(self))[k] == lookup_of(*old(self))[k]')],
                  origin={'keeps-table-injective': 'property', 'existing-bindings-unchanged': 'property'})
        close_container(out, im, f)

    def emit_collect(self, out, G, probe):
        # node.rs: every xmlns declaration in scope of a node is registered through add_namespace_reference
        rel = 'model/node.rs'
        f = SRC + rel
        out.spec('    use crate::roxmltree::{Node, declared_namespaces, declared_ns, xns_name, xns_uri};')
        KEEP = 'forall|k: String| #[trigger] lookup_of(*old(doc)).contains_key(k) ==> lookup_of({d}).contains_key(k) && lookup_of({d})[k] == lookup_of(*old(doc))[k]'
        NEW = ('forall|k: String| #[trigger] lookup_of({d}).contains_key(k) && !lookup_of(*old(doc)).contains_key(k) ==> '
               'exists|i: int| 0 <= i < {n} && xns_name(#[trigger] declared_ns(node)[i]) == Some(k@) && lookup_of({d})[k].namespace@ == xns_uri(declared_ns(node)[i])')
        splice_fn(out, G.top(rel, 'fn', 'collect_namespaces_on_node'), f, 'node::collect_namespaces_on_node', probe=probe,
                  requires=[('table-well-formed', 'wf(*old(doc))')],
                  ensures=[('keeps-table-injective', 'wf(*final(doc))'),
                           ('existing-bindings-unchanged', KEEP.format(d='*final(doc)')),
                           ('new-bindings-are-the-declared-ones', NEW.format(d='*final(doc)', n='declared_ns(node).len()'))],
                  origin={'keeps-table-injective': 'property', 'existing-bindings-unchanged': 'property', 'new-bindings-are-the-declared-ones': 'property'},
                  opaque=[{'at': 'node.namespaces()', 'call': 'declared_namespaces(node)', 'type': 'Vec<XmlNs>',
                           'note': 'the namespace declarations in scope as a Vec (assumed contract on roxmltree `namespaces()`: dep_misc.rs roxmltree-node `declared_namespaces`)'}],
                  inserts=[{'at': 'doc.add_namespace_reference(abbreviation, ns.uri());', 'text': '            let ghost pre_doc = *doc;'},
                           {'at': 'doc.add_namespace_reference(abbreviation, ns.uri());', 'where': 'after', 'text': '''
            proof {
                let idx = it.index@ as int;
                assert forall|k: String| #[trigger] lookup_of(*doc).contains_key(k) && !lookup_of(*old(doc)).contains_key(k) implies
                    exists|i: int| 0 <= i < idx + 1 && xns_name(#[trigger] declared_ns(node)[i]) == Some(k@) && lookup_of(*doc)[k].namespace@ == xns_uri(declared_ns(node)[i]) by {
                    if lookup_of(pre_doc).contains_key(k) {
                        let i = choose|i: int| 0 <= i < idx && xns_name(#[trigger] declared_ns(node)[i]) == Some(k@) && lookup_of(pre_doc)[k].namespace@ == xns_uri(declared_ns(node)[i]);
                        assert(lookup_of(*doc)[k] == lookup_of(pre_doc)[k]);
                        assert(xns_name(declared_ns(node)[i]) == Some(k@));
                    } else {
                        assert(xns_name(declared_ns(node)[idx]) == Some(k@));
                    }
                }
            }
'''}],
                  loops={0: {'kind': 'for', 'iter': 'it',
                             'invariants': [('declarations-fixed', 'it.seq() == declared_ns(node)'),
                                            ('table-stays-well-formed', 'wf(*doc)'),
                                            ('bindings-kept-so-far', KEEP.format(d='*doc')), ('new-bindings-so-far', NEW.format(d='*doc', n='it.index@'))],
                             'body_prefix': '        proof { assert(ns == declared_ns(node)[it.index@ as int]); }'}})

    def props_of(self, ob):
        # the prefix -> namespace table is also the first mechanism of C09 (a reference denotes the namespace bound to its prefix)
        return ['C13'] if ob.endswith('#safety') else ['C10', 'C09']

    def trusted_base(self):
        return list(self._trusted)
