"""Unit F — C09 (and the L2 table of C02): QName splitting / prefix resolution / builtin table of field.rs."""
from __future__ import annotations
from ..core import Unit
from ..splice import Out, AnchorLost, splice_fn, emit_verbatim
from .gen import Gen, SRC, sections, spec_section
from .hc import child, open_container, close_container
from .r import HEAD, TAIL, prelude
from .w import UnitW, MOD_HEAD

BUILTIN_ROWS = [
    ('byte', 'I8'), ('short', 'I16'), ('int', 'I32'), ('long', 'I64'),
    ('unsignedByte', 'U8'), ('unsignedShort', 'U16'), ('unsignedInt', 'U32'), ('unsignedLong', 'U64'),
    ('float', 'F32'), ('double', 'F64'), ('decimal', 'F64'), ('boolean', 'Bool'),
    ('string', 'String'), ('normalizedString', 'String'), ('base64Binary', 'String'), ('hexBinary', 'String'),
    ('anyURI', 'String'), ('date', 'String'), ('dateTime', 'String'), ('time', 'String'), ('language', 'String'), ('duration', 'String'),
    # unbounded integer types: any signed carrier of at least 32 bits (DESIGN 2.2)
    ('integer', None), ('negativeInteger', None), ('nonNegativeInteger', None), ('nonPositiveInteger', None), ('positiveInteger', None),
]


class UnitF(Unit):
    name = 'F'
    props = ('C09',)

    def build(self, repo, probe=False):
        out = Out()
        G = Gen(repo)
        out.spec('#![feature(allocator_api)]\n#![feature(pattern)]\n#![allow(unused_imports)]\n' + HEAD)
        self._trusted = prelude(out, ['ax-rc', 'ax-string-eq', 'ax-str-ext', 'ax-display-ref', 'ax-hash-string', 'ax-split-once', 'stdspec-contains',
                                      'stdspec-as-deref', 'stdspec-option-combinators', 'stdspec-split-once', 'stdspec-rsplit-once', 'ax-rsplit-once', 'ax-as-deref-rc',
                                      'stdspec-slice-iter', 'ax-slice-iter', 'stdspec-string-eq-str'])
        self._trusted += sections(out, 'dep_io.rs', ['io-write-ghost'])
        self._trusted += sections(out, 'dep_misc.rs', ['inflector', 'url', 'roxmltree-node'])
        out.spec(MOD_HEAD.replace('broadcast use crate::ax::display_ref;',
                                  'broadcast use {crate::ax::display_ref, crate::ax::rc_clone_eq, crate::ax::string_peq, crate::ax::str_ext, '
                                  'crate::ax::string_key_model, crate::ax::string_of_view, crate::ax::view_string_of, crate::ax::borrowed_string_key, crate::ax::borrowed_string_value, '
                                  'crate::ax::split_once_char, crate::ax::rsplit_once_char, crate::ax::as_deref_rc, crate::ax::iter_seq_is_remaining, vstd::std_specs::hash::group_hash_axioms};\n'
                                  '    use crate::stdspec::{peq, split_once_spec};\n    use crate::ax::string_of;\n'
                                  '    use crate::inflector::cases::pascalcase::pascal;'))
        w = UnitW()
        w._trusted = []
        w.emit_types(out, G)
        self._trusted += w._trusted
        out.spec(spec_section('F_spec.rs', 'qname-spec'))
        out.spec('    use crate::roxmltree::Node;')
        out.spec(spec_section('F_spec.rs', 'lookup-spec'))
        self._trusted += sections(out, 'X_glue.rs', ['lookup-callees'])
        # RustType::xml_name / RustNode::xml_name (structures/mod.rs, node.rs)
        rel = 'model/structures/mod.rs'
        im = [c for c in G.items(rel) if c.kind == 'impl' and c.name.strip() == 'RustType']
        if len(im) != 1:
            raise AnchorLost('impl RustType not found')
        im = im[0]
        open_container(out, im, SRC + rel)
        splice_fn(out, child(im, 'fn', 'xml_name'), SRC + rel, 'structures::RustType::xml_name', probe=probe,
                  ensures=[('name-of-the-component', 'match res { Some(r) => type_name(*self) == Some(r@), None => type_name(*self) is None }')],
                  origin={'name-of-the-component': 'helper'})
        close_container(out, im, SRC + rel)
        rel = 'model/node.rs'
        im = [c for c in G.items(rel) if c.kind == 'impl' and c.name.strip() == 'RustNode']
        if len(im) != 1:
            raise AnchorLost('impl RustNode not found')
        im = im[0]
        open_container(out, im, SRC + rel)
        splice_fn(out, child(im, 'fn', 'xml_name'), SRC + rel, 'node::RustNode::xml_name', probe=probe,
                  ensures=[('name-of-the-component', 'match res { Some(r) => type_name(self.rust_type) == Some(r@), None => type_name(self.rust_type) is None }')],
                  origin={'name-of-the-component': 'helper'})
        close_container(out, im, SRC + rel)
        rel = 'model/doc.rs'
        im = G.top(rel, 'impl', 'RustDocument')
        open_container(out, im, SRC + rel)
        HIT = ('table_has(*old(self), xml_name@, namespace, {t}) ==> res is Some && denotes(*(res->0), xml_name@, namespace, {t})')
        splice_fn(out, child(im, 'fn', 'find_component_by_xml_name'), SRC + rel, 'doc::RustDocument::find_component_by_xml_name', probe=probe,
                  ensures=[('read-component-denotes-the-reference', HIT.format(t='types_only'))],
                  origin={'read-component-denotes-the-reference': 'property'},
                  closures=[{'at': '|n| n == xml_name', 'ensures': 'b == (n@ == xml_name@)'},
                            {'at': '|name| name == xml_name', 'ensures': 'true'}],
                  inserts=[{'pos': 'body_start', 'text': '        proof { assert(self.nodes@.as_ref().unref() =~= self.nodes@); }'},
                           {'at': '.find(|node|', 'where': 'after', 'inline': True,
                            'text': ' -> (b: bool) ensures b == denotes(***node, xml_name@, namespace, types_only)'}])
        splice_fn(out, child(im, 'fn', 'find_node_by_xml_name'), SRC + rel, 'doc::RustDocument::find_node_by_xml_name', probe=probe,
                  ensures=[('read-component-denotes-the-reference', HIT.format(t='false'))], origin={'read-component-denotes-the-reference': 'property'})
        splice_fn(out, child(im, 'fn', 'find_type_by_xml_name'), SRC + rel, 'doc::RustDocument::find_type_by_xml_name', probe=probe,
                  ensures=[('base-lookup-finds-a-type', HIT.format(t='true'))], origin={'base-lookup-finds-a-type': 'property'})
        splice_fn(out, child(im, 'fn', 'find_namespace_by_abbreviation'), SRC + rel, 'doc::RustDocument::find_namespace_by_abbreviation', probe=probe,
                  ensures=[('prefix-lookup', 'match res { Some(r) => bound_ns(*self, abbreviation@) == Some(*r), None => bound_ns(*self, abbreviation@) is None }')],
                  origin={'prefix-lookup': 'helper'})
        splice_fn(out, child(im, 'fn', 'find_module_name_from_namespace_reference'), SRC + rel, 'doc::RustDocument::find_module_name_from_namespace_reference', probe=probe,
                  ensures=[('module-of-prefix', 'match res { Some(r) => bound_ns(*self, abbreviation@) is Some && r@ == bound_ns(*self, abbreviation@)->0.rust_mod_name@, None => bound_ns(*self, abbreviation@) is None }')],
                  origin={'module-of-prefix': 'helper'},
                  closures=[{'at': '|ns| ns.rust_mod_name.as_str()', 'ret': 'r: &str', 'ensures': 'r@ == ns.rust_mod_name@'}])
        close_container(out, im, SRC + rel)
        rel = 'model/field.rs'
        f = SRC + rel
        splice_fn(out, G.top(rel, 'fn', 'split_type'), f, 'field::split_type', probe=probe,
                  ensures=[('local-part', 'res.0@ == local_of(node_type@)'),
                           ('prefix-part', 'match res.1 { Some(p) => prefix_of(node_type@) == Some(p@), None => prefix_of(node_type@) is None }')],
                  origin={'local-part': 'property', 'prefix-part': 'property'})
        splice_fn(out, G.top(rel, 'fn', 'resolve_type'), f, 'field::resolve_type', probe=probe,
                  ensures=[('local-part', 'res.0@ == local_of(node_type@)'),
                           ('namespace-bound-to-prefix', 'res.1 == bound_of_qname(*doc, node_type@)')],
                  origin={'local-part': 'property', 'namespace-bound-to-prefix': 'property'},
                  closures=[{'at': '|ns| doc.find_namespace_by_abbreviation(ns)', 'ret': "r: Option<&Rc<Namespace>>",
                             'ensures': 'match r { Some(x) => bound_ns(*doc, ns@) == Some(*x), None => bound_ns(*doc, ns@) is None }'}])
        afn = G.top(rel, 'fn', 'as_rust_type')
        PAT = '.map(ToString::to_string)'
        eta = []
        for k in range(afn.body.count(PAT)):
            eta.append({'at': PAT, 'occurrence': k, 'offset': len('.map('), 'inline': True, 'text': '|x: &str| -> (r: String) ensures r@ == x@ { '})
            eta.append({'at': PAT, 'occurrence': k, 'offset': len(PAT) - 1, 'inline': True, 'text': '(x) }'})
        if eta:
            out.edits.append('field::as_rust_type: eta-expanded `.map(ToString::to_string)` to a closure with postcondition r@ == x@ (Verus does not take a '
                             'trait method path as a function value; original tokens kept in place)')
        from .k import string_literals
        lits = sorted(set(string_literals(afn)) | {'"%s"' % b for b, _ in BUILTIN_ROWS})
        reveal = 'proof { ' + ' '.join(f'reveal_strlit({l});' for l in lits) + ' }'
        eta.append({'pos': 'body_start', 'text': '    ' + reveal})
        if 'namespace.and_then(|ns|' in afn.body:
            eta.append({'at': 'namespace.and_then(|ns|', 'where': 'after', 'inline': True,
                        'text': ' -> (r: Option<String>) ensures match r { Some(m) => bound_ns(*doc, ns@) is Some && m@ == bound_ns(*doc, ns@)->0.rust_mod_name@, '
                                'None => bound_ns(*doc, ns@) is None }'})
        ens, org = [], {}
        # a prefix bound to a namespace of the schema set denotes a component of THAT namespace (C09), even one called like a builtin;
        # the builtin table applies to the other references (prefix of the XSD namespace, which is never registered, or no prefix)
        USER = '(prefix_of(node_type@) is Some && bound_ns(*doc, prefix_of(node_type@)->0) is Some)'
        for b, v in BUILTIN_ROWS:
            rhs = f'res is {v}' if v else '(res is I32 || res is I64)'
            ens.append((f'builtin-{b}', f'!{USER} && local_of(node_type@) == "{b}"@ ==> {rhs}'))
            org[f'builtin-{b}'] = 'property'
        isb = ' || '.join(f'local_of(node_type@) == "{b}"@' for b, _ in BUILTIN_ROWS)
        ens.append(('named-type-in-module-of-its-prefix',
                    f'({USER} || !({isb})) ==> res is Other && res->Other_0.name@ == pascal(local_of(node_type@)) && '
                    '(match prefix_of(node_type@) { Some(p) => (match bound_ns(*doc, p) { '
                    'Some(ns) => res->Other_0.module is Some && res->Other_0.module->0@ == ns.rust_mod_name@, None => res->Other_0.module is None }), '
                    'None => res->Other_0.module is None })'))
        org['named-type-in-module-of-its-prefix'] = 'property'
        splice_fn(out, afn, f, 'field::as_rust_type', probe=probe, inserts=eta, ensures=ens, origin=org)
        out.spec('}\n' + TAIL)
        return out

    def props_of(self, ob):
        if ob.endswith('#safety'):
            return ['C13']
        if 'builtin-' in ob:
            return ['C02']
        return ['C09']

    def trusted_base(self):
        return list(self._trusted)
