"""Thorough tier: seeded-change self-test.  Every stored seeded change of this property (/verif/seeded/<id>-<n>/patch.diff) is applied
to a scratch copy of /repo and the property's QUICK check is run against that copy; it must report a VIOLATION (exit 1)."""
from __future__ import annotations
import glob
import json
import os
import shutil
import subprocess
import sys

from .core import VERIF, REPO, scratch

EXPECTED_MISS = {}


def run_selftest(pid: str) -> dict:
    res = {'seeds': [], 'detected': 0, 'applied': 0, 'undetected': [], 'skipped': []}
    for d in sorted(glob.glob(os.path.join(VERIF, 'seeded', pid + '-*'))):
        name = os.path.basename(d)
        patch = os.path.join(d, 'patch.diff')
        if not os.path.exists(patch):
            continue
        root = os.path.join(scratch(), 'selftest-' + name)
        subprocess.run(['rsync', '-a', '--delete', '--exclude', '/target', '--exclude', '.git', REPO.rstrip('/') + '/', root + '/'], check=True)
        a = subprocess.run(['patch', '-p1', '-s', '-f', '-i', patch], cwd=root, capture_output=True, text=True)
        if a.returncode != 0:
            res['skipped'].append(f'{name}: patch no longer applies to the current tree')
            shutil.rmtree(root, ignore_errors=True)
            continue
        res['applied'] += 1
        env = dict(os.environ, VERIF_REPO=root, VERIF_TIER='quick', VERIF_NO_SELFTEST='1',
                   VERIF_EVIDENCE_DIR=os.path.join(scratch(), 'selftest-evidence'), VERIF_REPLAY_DIR=os.path.join(scratch(), 'selftest-replays'))
        p = subprocess.run([sys.executable, os.path.join(VERIF, 'check'), pid, '--tier', 'quick'], env=env, capture_output=True, text=True)
        lines = [l for l in p.stdout.splitlines() if l.startswith('VIOLATION') or l.startswith('INCONCLUSIVE') or l.startswith('OK')]
        hit = p.returncode == 1 and any(l.startswith('VIOLATION') for l in lines)
        res['seeds'].append({'seed': name, 'rc': p.returncode, 'detected': hit, 'first_line': (lines or [''])[0][:200]})
        if hit:
            res['detected'] += 1
        elif name in EXPECTED_MISS:
            res['skipped'].append(f'{name}: not detected, as documented ({EXPECTED_MISS[name]})')
        else:
            res['undetected'].append(name)
        shutil.rmtree(root, ignore_errors=True)
    return res
