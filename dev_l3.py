import sys, os
sys.path.insert(0,'/verif')
from vp.core import *
from vp import l3gen
from vp.l3 import model as M
from vp.units.l3 import Program
schema = sys.argv[1]; concern = sys.argv[2]
m = M.load(schema)
g = l3gen.generate([schema])[schema]
print(g['status'], g['msg'][:200])
P = Program('L3_'+os.path.basename(schema).split('.')[0]+'_'+concern, schema, g['out'], m, concern)
ur = run_unit(P, probe='--probe' in sys.argv)
print(ur.status, '|', ur.reason[:600], '|', ur.file)
if ur.vr: print('verified', ur.vr.verified, 'errors', ur.vr.errors, 'wall', round(ur.vr.wall_s,2))
for d in (ur.vr.other_errors() if ur.vr else [])[:6]: print(d.rendered)
for f in ur.failures: print('FAIL', f.obligation, '|', f.message, '|', f.exit_text()[:150])
print('obligations', len(ur.obligations), 'probe', ur.probe)
