#!/bin/sh
# run every claimed check (quick tier unless $1 given) on /repo as it is and validate manifest + evidence
cd /verif || exit 1
TIER=${1:-quick}
python3 tools/gen_manifest.py >/dev/null
rc=0
for id in $(python3 -c "import json;print(' '.join(c['property_id'] for c in json.load(open('MANIFEST.json'))['checks']))"); do
  s=$(date +%s)
  out=$(./check $id --tier $TIER 2>&1); r=$?
  e=$(date +%s)
  echo "$id rc=$r $((e-s))s :: $(echo "$out" | grep -v '^WARNING' | tail -1 | cut -c1-200)"
  [ $r -ne 0 ] && rc=1
done
python3-vt - <<'PY'
import json, jsonschema, glob
jsonschema.validate(json.load(open('MANIFEST.json')), json.load(open('/root/.vp/MANIFEST.schema.json')))
sch = json.load(open('/root/.vp/EVIDENCE.schema.json'))
m = json.load(open('MANIFEST.json'))
for c in m['checks']:
    ev = json.load(open(c['evidence_file']))
    jsonschema.validate(ev, sch)
    cov = ev['coverage']
    if ev['level'] == 'proof' and cov.get('obligations') != cov.get('discharged'):
        print('EVIDENCE PROBLEM', c['property_id'], cov.get('obligations'), cov.get('discharged'))
print('manifest + evidence files validate')
PY
exit $rc
