#!/usr/bin/env python3
"""dev helper: apply semantics-PRESERVING edits to a scratch copy of /repo and run the relevant checks on it (VERIF_REPO);
a VIOLATION here is a false alarm, an INCONCLUSIVE a loss of coverage.  usage: refactor_check.py N [N ..] | all   (without arguments: lists the edits)"""
import os, shutil, subprocess, sys, tempfile
HC = 'zeep-lib/src/model/helpers_content.rs'
DOC = 'zeep-lib/src/model/doc.rs'
WR = 'zeep-lib/src/model/structures/writer.rs'
FIELD = 'zeep-lib/src/model/field.rs'
SVC = 'zeep-lib/src/model/soap/service.rs'
EDITS = [
 ('rename local s_len', HC, [('let s_len = self.chars().count();', 'let n_chars = self.chars().count();'), ('if s_len < min_length', 'if n_chars < min_length'), ('if max_length < s_len', 'if max_length < n_chars'), ('if length != s_len', 'if length != n_chars')], 'C06 C07'),
 ('reorder bound checks in check_bounds', HC, [('''        if let Some(min_inclusive) = restrictions.min_inclusive {
            if value < i128::from(min_inclusive) {
                return Err(SoapError::Restriction("minInclusive restriction not met".to_string()));
            }
        }

        if let Some(max_inclusive) = restrictions.max_inclusive {
            if i128::from(max_inclusive) < value {
                return Err(SoapError::Restriction("maxInclusive restriction not met".to_string()));
            }
        }
''', '''        if let Some(max_inclusive) = restrictions.max_inclusive {
            if i128::from(max_inclusive) < value {
                return Err(SoapError::Restriction("maxInclusive restriction not met".to_string()));
            }
        }

        if let Some(min_inclusive) = restrictions.min_inclusive {
            if value < i128::from(min_inclusive) {
                return Err(SoapError::Restriction("minInclusive restriction not met".to_string()));
            }
        }
''')], 'C06'),
 ('rename local abbreviation in add_namespace_reference', DOC, [('''        let abbreviation = make_abbreviated_namespace(url, &self.namespaces);

        let rust_mod_name = create_mod_name_for_namespace(&abbreviation);
        let ns = Rc::new(Namespace {
            abbreviation,''', '''        let abbr = make_abbreviated_namespace(url, &self.namespaces);

        let rust_mod_name = create_mod_name_for_namespace(&abbr);
        let ns = Rc::new(Namespace {
            abbreviation: abbr,''')], 'C10'),
 ('swap early returns in add_namespace_reference', DOC, [('''        if original_abbreviation.is_empty() || url.is_empty() {
            return;
        }

        if WELL_KNOWN_NAMESPACES.contains(&url) {
            return;
        }
''', '''        if WELL_KNOWN_NAMESPACES.contains(&url) {
            return;
        }

        if original_abbreviation.is_empty() || url.is_empty() {
            return;
        }
''')], 'C10'),
 ('new writer helper fn in structures/writer.rs', WR, [('''    writeln!(writer, "pub struct {rust_name} {{")?;
    for field in fields {
        field.write_xml(writer)?;
    }
    writeln!(writer, "}}")?;
''', '''    writeln!(writer, "pub struct {rust_name} {{")?;
    write_members(writer, fields)?;
    writeln!(writer, "}}")?;
'''), ('''fn write_complex_type<W>(''', '''fn write_members<W>(writer: &mut W, fields: &[crate::model::field::Field]) -> WriterResult<()>
where
    W: io::Write,
{
    for field in fields {
        field.write_xml(writer)?;
    }
    Ok(())
}

fn write_complex_type<W>(''')], 'C15 C02'),
 ('reorder match arms in as_rust_type', FIELD, [('''        "byte" => RustFieldType::I8,
''', ''), ('''        "boolean" => RustFieldType::Bool,
''', '''        "boolean" => RustFieldType::Bool,
        "byte" => RustFieldType::I8,
''')], 'C09 C02'),
 ('rename local body in send_soap_request_using_client', HC, [('let body = yaserde::ser::to_string(&req).map_err(SoapError::YaserdeError)?;\n        let mut req = client.post(url).body(body);', 'let payload = yaserde::ser::to_string(&req).map_err(SoapError::YaserdeError)?;\n        let mut req = client.post(url).body(payload);')], 'C16 C07'),
 ('MultiRef::deserialize via Self::new', HC, [('Ok(Self { inner: Arc::new(inner) })', 'Ok(Self::new(inner))')], 'C19'),
 ('different indentation of the emitted client method', SVC, [('"    let credentials = self.credentials.as_ref().map(|(u, p)| (u.as_str(), p.as_str()));"', '"        let credentials = self.credentials.as_ref().map(|(u, p)| (u.as_str(), p.as_str()));"')], 'C05'),
 ('emitted value field with trailing comma', WR, [('writeln!(writer, "    pub value: {rust_type}")?;\n    } else if', 'writeln!(writer, "    pub value: {rust_type},")?;\n    } else if')], 'C02 C07'),
 ('rename loop variable in Vec impl', HC, [('for c in self {\n                c.check_restrictions(restrictions.clone())?;', 'for item in self {\n                item.check_restrictions(restrictions.clone())?;')], 'C06 C07'),
 ('use is_none guard in switch_to_target_namespace', DOC, [('        if !self.target_namespaces.iter().any(|ns| ns.namespace == namespace) {', '        if self.target_namespaces.iter().all(|ns| ns.namespace != namespace) {')], 'C10'),
]

CPLX = 'zeep-lib/src/model/structures/complex.rs'
RSTR = 'zeep-lib/src/model/structures/restrictions.rs'
ELEM = 'zeep-lib/src/model/structures/element.rs'
NODE = 'zeep-lib/src/model/node.rs'
EDITS += [
 # round 11: the sanitisers of unit K
 ('rename local / closure parameter in service_type_name', SVC, [('let ident: String = name.chars()', 'let cleaned: String = name.chars()'), ('if ident.is_empty() || ident == "_" {', 'if cleaned.is_empty() || cleaned == "_" {'),
    ('if ident.chars().next().map_or(true, |c| c.is_ascii_digit()) {', 'if cleaned.chars().next().map_or(true, |ch| ch.is_ascii_digit()) {'), ('format!("_{ident}")', 'format!("_{cleaned}")'), ('rename_keywords(&ident).to_string()', 'rename_keywords(&cleaned).to_string()')], 'C14'),
 ('stricter filter in service_type_name (alphanumeric only)', SVC, [("name.chars().filter(|c| c.is_ascii_alphanumeric() || *c == '_').collect();", "name.chars().filter(|c| c.is_ascii_alphanumeric()).collect();")], 'C14'),
 ('reordered disjuncts in the stem filter', DOC, [("            .filter(|c| c.is_ascii_alphanumeric() || *c == '_')\n            .take(3)", "            .filter(|ch| *ch == '_' || ch.is_ascii_alphanumeric())\n            .take(3)")], 'C14'),
]
EDITS += [
 ('rename local tag_name in import_sequence_node_fields', CPLX, [('let tag_name = child.tag_name().name();', 'let tag = child.tag_name().name();'), ('if tag_name == "choice" {', 'if tag == "choice" {'), ('if tag_name == "sequence" {', 'if tag == "sequence" {'), ('if tag_name == "attributeGroup" {', 'if tag == "attributeGroup" {')], 'C02 C08'),
 ('attributeGroup test first in import_sequence_node_fields', CPLX, [("""        if tag_name == "attributeGroup" {
            // attribute groups are not supported (they used to be skipped by the early return above)
            continue;
        }

""", ''), ("""        if tag_name == "choice" {
            import_choice_fields""", """        if tag_name == "attributeGroup" {
            continue;
        }

        if tag_name == "choice" {
            import_choice_fields""")], 'C02'),
 ('swap is_choice / in_choice lines in Field::try_from_node', FIELD, [("""        let is_choice = node.parent().is_some_and(|n| n.tag_name().name() == "choice");
        let in_choice = groups.iter().any(|n| n.tag_name().name() == "choice");
""", """        let in_choice = groups.iter().any(|n| n.tag_name().name() == "choice");
        let is_choice = node.parent().is_some_and(|n| n.tag_name().name() == "choice");
""")], 'C02'),
 ('is_optional with reordered disjuncts', FIELD, [('node.attribute("minOccurs") == Some("0") || parent_is_optional || in_choice', 'in_choice || parent_is_optional || node.attribute("minOccurs") == Some("0")')], 'C02'),
 ('reorder facet reads in build_restrictions', RSTR, [("""    get_restriction_from_attribute_or_node(restriction, &mut restrictions.min_length, "minLength");
    get_restriction_from_attribute_or_node(restriction, &mut restrictions.max_length, "maxLength");
""", """    get_restriction_from_attribute_or_node(restriction, &mut restrictions.max_length, "maxLength");
    get_restriction_from_attribute_or_node(restriction, &mut restrictions.min_length, "minLength");
""")], 'C07'),
 ('rename local complex_props in ElementProps::try_from_node', ELEM, [('let complex_props = ComplexProps::try_from_node(n, doc)?;', 'let cp = ComplexProps::try_from_node(n, doc)?;'), ('element_type: ElementType::ComplexType(complex_props),', 'element_type: ElementType::ComplexType(cp),')], 'C02'),
 ('reorder match arms in RustNode::try_from_node', NODE, [("""            "simpleType" => {
                // determine simpleType's-type: enum, list
                rust_type = RustType::Simple(SimpleProps::try_from_node(node, doc)?.into());
            }
""", ''), ("""            "element" => {
                // determine element's-type: struct, enum, list
                rust_type = RustType::Element(ElementProps::try_from_node(node, doc)?.into());
            }
""", """            "element" => {
                // determine element's-type: struct, enum, list
                rust_type = RustType::Element(ElementProps::try_from_node(node, doc)?.into());
            }
            "simpleType" => {
                rust_type = RustType::Simple(SimpleProps::try_from_node(node, doc)?.into());
            }
""")], 'C02'),
 ('rename local base_node in import_extension_fields', CPLX, [('let base_node = doc', 'let found = doc'), ('match &base_node.rust_type {', 'match &found.rust_type {')], 'C08'),
 ('types_only test first in find_component_by_xml_name', DOC, [("""            node.rust_type.xml_name().is_some_and(|n| n == xml_name)
                && node.in_namespace.as_deref() == namespace
                && !(types_only && matches!(node.rust_type, RustType::Element(_)))""", """            !(types_only && matches!(node.rust_type, RustType::Element(_)))
                && node.rust_type.xml_name().is_some_and(|n| n == xml_name)
                && node.in_namespace.as_deref() == namespace""")], 'C09'),
]
if len(sys.argv) < 2:
    # every edit costs a build plus one or two checks (about a minute each): list them and ask for numbers (or `all`)
    for k_, e_ in enumerate(EDITS):
        print(k_, e_[0], '->', e_[-1])
    print('usage: refactor_check.py N [N ..] | all')
    sys.exit(0)
sel = range(len(EDITS)) if sys.argv[1] == 'all' else [int(x) for x in sys.argv[1:]]
for k in sel:
    name, f, reps, ids = EDITS[k]
    d = tempfile.mkdtemp(prefix='zv-ref.', dir='/var/tmp')
    try:
        subprocess.run(['rsync', '-a', '--exclude', '/target', '--exclude', '.git', '/repo/', d + '/'], check=True)
        p = os.path.join(d, f)
        s = open(p).read()
        ok = True
        for old, new in reps:
            if old not in s:
                print(f'[{k}] {name}: EDIT TEXT NOT FOUND: {old[:50]!r}'); ok = False; break
            s = s.replace(old, new, 1)
        if not ok:
            continue
        open(p, 'w').write(s)
        b = subprocess.run('cargo build --offline -q 2>&1 | tail -3', shell=True, cwd=d, env=dict(os.environ, CARGO_TARGET_DIR='/var/tmp/zv-ref-target'), capture_output=True, text=True)
        if 'error' in b.stdout:
            print(f'[{k}] {name}: DOES NOT COMPILE {b.stdout[-300:]}'); continue
        for i in ids.split():
            env = dict(os.environ, VERIF_REPO=d, VERIF_EVIDENCE_DIR='/var/tmp/zv-ref-evidence', VERIF_REPLAY_DIR='/var/tmp/zv-ref-replays')
            o = subprocess.run(['/verif/check', i], env=env, capture_output=True, text=True)
            lines = [l for l in o.stdout.splitlines() if l.startswith(('VIOLATION', 'INCONCLUSIVE', 'OK', '  obligation'))]
            print(f'[{k}] {name} :: {i} rc={o.returncode} :: ' + ' | '.join(l[:170] for l in lines[:3]))
    finally:
        shutil.rmtree(d, ignore_errors=True)
shutil.rmtree('/var/tmp/zv-ref-target', ignore_errors=True)
