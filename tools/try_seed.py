#!/usr/bin/env python3
"""Confirm a seeded change and run checks against it.
usage: try_seed.py SRC_DIR DEMO_HOST_FILE "C06 C13 .." [--keep NAME]
  SRC_DIR holds patch.diff + demo.rs (+ notes.md).  Steps, all on a scratch copy of /repo's working tree (removed afterwards):
   1. clean tree: append demo -> must PASS;  2. apply patch: existing 32 tests must pass, demo must FAIL;
   3. run the given checks on the patched tree;  4. remove the copy.
  With --keep NAME the seed is stored as /verif/seeded/NAME/ with meta.json."""
import json, os, shutil, subprocess, sys, time
src, host, ids = sys.argv[1], sys.argv[2], sys.argv[3].split()
if host == 'auto':
    first = open(os.path.join(src, 'notes.md')).readline()
    host = first.split('host:', 1)[1].strip().strip('`')
keep = sys.argv[sys.argv.index('--keep') + 1] if '--keep' in sys.argv else None
# work on a scratch copy of /repo's working tree (so /repo itself is never touched and background runs are not disturbed)
SCR = os.environ.get('VERIF_SCRATCH', '/var/tmp') + f'/zeep-tryseed.{os.getpid()}'
R = SCR + '/repo'
os.makedirs(SCR, exist_ok=True)
subprocess.run(f"rsync -a --exclude target --exclude .git/worktrees /repo/ {R}/", shell=True, check=True)
os.environ['CARGO_TARGET_DIR'] = os.environ.get('TRY_SEED_TARGET', '/var/tmp/zeep-tryseed-target')
os.environ['VERIF_REPO'] = R
# the checks run against the patched copy: their evidence must not overwrite /verif/evidence (which describes /repo itself)
os.environ['VERIF_EVIDENCE_DIR'] = SCR + '/evidence'
os.makedirs(SCR + '/evidence', exist_ok=True)
def sh(cmd, **kw):
    return subprocess.run(cmd, shell=True, capture_output=True, text=True, **kw)
def tests():
    o = sh(f'cd {R} && cargo test --workspace --no-fail-fast --offline 2>&1')
    return 'test result: ok. 32 passed; 0 failed' in o.stdout and 'FAILED' not in o.stdout, o.stdout
def demo():
    p = os.path.join(R, host)
    orig = open(p).read()
    try:
        open(p, 'w').write(orig + '\n' + open(os.path.join(src, 'demo.rs')).read() + '\n')
        o = sh(f'cd {R} && cargo test --offline -p zeep-lib seeded_demo 2>&1')
        ok = 'test result: ok' in o.stdout and 'FAILED' not in o.stdout and ' 0 passed' not in o.stdout.split('test result: ok')[-1][:40]
        compiled = 'error: could not compile' not in o.stdout and 'error[E' not in o.stdout
        return ok, compiled, o.stdout[-1500:]
    finally:
        open(p, 'w').write(orig)
res = {'src': src}
assert sh(f'git -C {R} status --porcelain').stdout.strip() == '', '/repo is not clean'
try:
    ok, comp, out = demo()
    res['demo_passes_on_clean_tree'] = ok
    if not comp: print('DEMO DOES NOT COMPILE on clean tree\n', out)
    a = sh(f'git -C {R} apply {os.path.join(src, "patch.diff")}')
    res['patch_applies'] = a.returncode == 0
    if a.returncode: print('PATCH DOES NOT APPLY', a.stderr); sys.exit(3)
    t, tout = tests()
    res['existing_tests_pass_with_patch'] = t
    ok2, comp2, out2 = demo()
    res['demo_fails_with_patch'] = (not ok2) and comp2
    res['checks'] = {}
    for i in ids:
        t0 = time.time()
        o = sh(f'cd /verif && ./check {i} 2>&1')
        lines = [l for l in o.stdout.splitlines() if not l.startswith('WARNING') and not l.startswith('KNOWN-FINDING')]
        res['checks'][i] = {'rc': o.returncode, 'wall_s': round(time.time() - t0, 1), 'output': lines[:8]}
finally:
    shutil.rmtree(SCR, ignore_errors=True)
print(json.dumps(res, indent=1))
if keep:
    d = f'/verif/seeded/{keep}'
    os.makedirs(d, exist_ok=True)
    for f in os.listdir(src):
        if os.path.isfile(os.path.join(src, f)) and os.path.abspath(src) != os.path.abspath(d):
            shutil.copy(os.path.join(src, f), d)
    meta = {'breaks_property': keep.split('-')[0], 'demo_host_file': host, 'confirmed': {k: res.get(k) for k in
            ('demo_passes_on_clean_tree', 'patch_applies', 'existing_tests_pass_with_patch', 'demo_fails_with_patch')},
            'checks_run_on_patched_tree': res['checks'],
            'what_i_ran': f'tools/try_seed.py {src} {host} "{" ".join(ids)}" (clean tree: demo appended to {host} and run with cargo test -p zeep-lib seeded_demo; '
                          f'patched tree: cargo test --workspace (32 tests), the demo again, then ./check for each id; scratch copy of /repo removed)'}
    json.dump(meta, open(os.path.join(d, 'meta.json'), 'w'), indent=1)
