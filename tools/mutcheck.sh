#!/bin/sh
# dev helper: mutcheck.sh "<ids>" FILE OLD NEW  — applies a one-off textual mutation in /repo's working tree,
# runs the given checks, and restores the tree (git checkout) whatever happens
ids="$1"; f="$2"; old="$3"; new="$4"
cd /repo || exit 1
python3 - "$f" "$old" "$new" <<'PY' || { echo "mutation text not found"; exit 3; }
import sys
f,old,new=sys.argv[1:4]
s=open(f).read()
if old not in s: sys.exit(3)
open(f,'w').write(s.replace(old,new,1))
PY
if ! cargo build --offline -q 2>/dev/null; then echo "MUTANT DOES NOT COMPILE"; git checkout -- .; exit 4; fi
t=$(cargo test --workspace --no-fail-fast --offline 2>&1 | grep -c "test result: ok. 32 passed")
echo "existing tests pass: $t"
cd /verif
for id in $ids; do ./check $id 2>&1 | grep -v "^WARNING\|^KNOWN-FINDING" | head -4; echo "  -> $id rc=$?"; done
git -C /repo checkout -- .
