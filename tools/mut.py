#!/usr/bin/env python3
"""dev helper: apply a textual mutation to a scratch copy of /repo and run one unit on it.
usage: mut.py UNIT FILE OLD NEW [--count N]"""
import os, subprocess, sys, shutil, tempfile
unit, file, old, new = sys.argv[1:5]
d = tempfile.mkdtemp(prefix='zv-mut.', dir='/var/tmp')
try:
    subprocess.run(['rsync', '-a', '--exclude', '/target', '--exclude', '.git', '/repo/', d + '/'], check=True)
    p = os.path.join(d, file)
    s = open(p).read()
    if old not in s:
        print('OLD text not found'); sys.exit(3)
    s = s.replace(old, new, 1)
    open(p, 'w').write(s)
    env = dict(os.environ, VERIF_REPO=d)
    r = subprocess.run([sys.executable, '/verif/dev_run.py', unit], env=env, capture_output=True, text=True)
    print(r.stdout[-3000:]); print(r.stderr[-500:] if r.returncode else '')
finally:
    shutil.rmtree(d, ignore_errors=True)
