#!/bin/sh
# commit a fix in /repo only if the unedited test suite passes: repo_commit.sh "fix: message"
cd /repo || exit 1
out=$(cargo test --workspace --no-fail-fast --offline 2>&1)
if echo "$out" | grep -q "test result: ok. 32 passed; 0 failed" && ! echo "$out" | grep -q "FAILED\|^error"; then
  git commit -qam "$1" && git log --oneline | head -1
else
  echo "TESTS DO NOT PASS - not committed"; echo "$out" | grep -E "FAILED|^error|test result" | head
  exit 1
fi
