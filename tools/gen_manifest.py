#!/usr/bin/env python3
"""Regenerate /verif/MANIFEST.json from vp/registry.py (claimed checks) and NOT_APPLICABLE below."""
import json, os, sys
ROOT = os.path.dirname(os.path.dirname(os.path.abspath(__file__)))
sys.path.insert(0, ROOT)
from vp import registry

ALL = ['C%02d' % i for i in range(1, 20)]

def main():
    checks = []
    for pid in ALL:
        if pid not in registry.PROPS:
            continue
        s = registry.PROPS[pid]
        checks.append({
            'property_id': pid,
            'quick_cmd': f'./check {pid} --tier quick',
            'thorough_cmd': f'./check {pid} --tier thorough',
            'evidence_file': f'/verif/evidence/{pid}.json',
            'replay_cmd_template': f'./check {pid} --replay {{path}}',
            'engine': s.get('engine', 'verus-contracts'),
            'level_claimed': {'category': s.get('level', 'proof'), 'text': s['level_text'], 'design_ref': s.get('design_ref', '')},
            'level_note': s['level_note'],
            'technique': s.get('technique', 'contract-based deductive verification (Verus) of functions extracted byte-exact from /repo each run'),
        })
    na = [{'property_id': pid, 'reason': registry.NOT_APPLICABLE[pid]} for pid in ALL if pid not in registry.PROPS]
    m = {
        'version': 1,
        'setup_cmd': './setup.sh',
        'hooks': {
            'guard': 'none (no instrumentation is committed to /repo; contracts are spliced into a scratch extraction at check time; `kani` cfg is used only inside scratch copies)',
            'enable': 'nothing to enable: ./check <id> extracts the functions from /repo\'s working tree on every run',
            'baseline_off_cmd': 'cd /repo && cargo test --workspace --no-fail-fast --offline',
            'source_commits': [],
            'add_only': True,
        },
        'engines': [
            {'name': 'verus-contracts', 'path': '/verif/vp', 'serves_properties': sorted(registry.PROPS),
             'kind_free_text': 'Python extractor/splicer + Verus 0.2026.09.13 (Z3); contracts in /verif/contracts and /verif/vp/units; Kani 0.68 as second back end / counterexample source on integer helper code'},
        ],
        'checks': checks,
        'not_applicable': na,
        'notes': registry.NOTES,
    }
    with open(os.path.join(ROOT, 'MANIFEST.json'), 'w') as f:
        json.dump(m, f, indent=1)
        f.write('\n')
    print('MANIFEST.json written:', len(checks), 'checks,', len(na), 'not applicable')

if __name__ == '__main__':
    main()
